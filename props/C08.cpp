// C08 — polygon area / perimeter over edit histories (DESIGN 3/C08), stateful / model based
//   C08.hist   generated histories of Clear / AddPoint / AddEdge / TestPoint / TestEdge / Compute / CurrentPoint on
//              PolygonArea, PolygonAreaExact, PolygonAreaRhumb (polygon and polyline); after every step the object is
//              compared with a model = vertex list + INDEPENDENT area assembly:
//                area_ccw == -sum S12_edge + 2 pi c2 * w   (mod ellipsoid area),  w = (sum of unrolled dlambda)/360
//              where for geodesic back ends S12_edge and dlambda come from the ODE reference following each edge
//              (no crossing-parity logic, no library S12); Test* must equal add-then-compute and leave the object
//              unchanged (bit-identical Compute afterwards); Clear == fresh object
//   C08.meta   metamorphic relations on generated vertex lists: start vertex, traversal order vs reverse flag, the
//              four reverse/sign combinations, constant longitude shift, +360k on single longitudes, cut along a
//              diagonal (areas add modulo the ellipsoid area, perimeters add minus twice the diagonal)
#include "props/geod_common.hpp"
#include <GeographicLib/PolygonArea.hpp>
#include <GeographicLib/Rhumb.hpp>

using namespace gc;

namespace {

struct Vtx { double lat, lon; bool byedge; double azi, s; };   // byedge: reached by AddEdge(azi, s) from the previous vertex

struct EdgeRef { L s12, S12, dlam, tolp, tolS, sens; bool ok; std::string why; };   // sens: d(area)/d(vertex displacement) [m^2/m]

L dalpha_ds_iso(const ref::Ellipsoid& E, L lat) {
  L sphi, cphi; ref::Ode::sincosd(lat, sphi, cphi);
  L nu = E.a / sqrtl(1 - E.e2 * sphi * sphi);
  return fabsl(sphi) / (nu * std::max(cphi, 1e-300L));
}

// reference quantities of one edge.  kind: 0 series, 1 exact, 2 rhumb
EdgeRef edge_ref(int kind, double a, double f, const Vtx& p, const Vtx& q, bool q_by_edge) {
  EdgeRef r; r.ok = true; r.s12 = r.S12 = r.dlam = 0; r.tolp = r.tolS = r.sens = 0;
  ref::Ellipsoid E(a, f);
  L areascale = E.c2 / 4.0589e13L;
  // ---- an edge (shortest line to a given vertex) with exactly one end point at a pole.  The pole vertex carries the
  // longitude it was given with: the line is the meridian of the other point, and the whole longitude change d happens at
  // the pole, so the area between the edge and the equator is the lune of that hemisphere, S12 = sign(pole) c2 d, for
  // geodesic and rhumb edges alike (independent of the library); the length is the meridian distance, taken from the
  // library's inverse (validated for pole end points by C02 / C09).
  if (!q_by_edge && (std::fabs(p.lat) == 90) != (std::fabs(q.lat) == 90)) {
    L d = remainderl((L)q.lon - (L)p.lon, 360.0L);
    if (fabsl(fabsl(d) - 180) < 1e-9L) { r.ok = false; r.why = "pole end point on the opposite meridian (sense of the longitude change is a tie rule)"; return r; }
    double polelat = std::fabs(p.lat) == 90 ? p.lat : q.lat, other = std::fabs(p.lat) == 90 ? q.lat : p.lat, s;
    if (kind == 2) { double az, S; Rhumb(a, f, false).Inverse(p.lat, p.lon, q.lat, q.lon, s, az, S); }
    else { Inv o = lib_inverse(kind, a, f, p.lat, p.lon, q.lat, q.lon); s = o.s12; }
    r.s12 = s; r.S12 = (polelat > 0 ? 1 : -1) * E.c2 * d * ref::DEG_L; r.dlam = d;
    r.tolp = (kind == 2 ? 1e-9L * (1 + fabsl(r.s12) / 1e7L) * (a / 6378137.0) : kdoc(kind, a, f) * 3);
    r.sens = E.c2 * dalpha_ds_iso(E, other) + fabsl(r.s12) + E.a;
    r.tolS = 2 * 0.1L * areascale * 3 + 2 * r.sens * r.tolp;
    return r;
  }
  if (kind == 2) {
    Rhumb rh(a, f, false);
    if (q_by_edge) {
      double la, lo, S; rh.GenDirect(p.lat, p.lon, q.azi, q.s, Rhumb::ALL | Rhumb::LONG_UNROLL, la, lo, S);
      if (!std::isfinite(lo) || !std::isfinite(S)) { r.ok = false; r.why = "rhumb edge through a pole"; return r; }
      r.s12 = q.s; r.S12 = S; r.dlam = (L)lo - (L)p.lon;
      // the unrolled longitude change decides the winding number: take it from the defining expression
      // tan(azi) x (difference of isometric latitudes) (closed form, independent of the library) whenever that is
      // well-conditioned, and keep the library's value only for its fractional accuracy
      {
        auto psi = [&](L latdeg) {
          L ph = latdeg * ref::DEG_L, sp = sinl(ph), e2 = E.e2;
          L t = asinhl(tanl(ph));
          if (e2 > 0) { L e = sqrtl(e2); t -= e * atanhl(e * sp); } else if (e2 < 0) { L e = sqrtl(-e2); t += e * atanl(e * sp); }
          return t;
        };
        L az = remainderl((L)q.azi, 360.0L) * ref::DEG_L;
        if (std::fabs(la) < 89.9 && std::fabs(p.lat) < 89.9 && fabsl(cosl(az)) > 1e-2L) {
          L expect = tanl(az) * (psi(la) - psi(p.lat)) / ref::DEG_L;
          if (std::isfinite((double)expect) && fabsl(expect) < 1e5L) {
            L k = roundl((r.dlam - expect) / 360);
            if (k != 0 && fabsl(r.dlam - expect - 360 * k) < 1e-3L) r.dlam -= 360 * k;     // library off by whole turns: the model is not
          }
        }
      }
    } else {
      double s, az, S; rh.Inverse(p.lat, p.lon, q.lat, q.lon, s, az, S);
      L d = remainderl((L)q.lon - (L)p.lon, 360.0L);
      if (fabsl(fabsl(d) - 180) < 1e-9L) { r.ok = false; r.why = "non-unique shortest rhumb edge (lon12 = 180)"; return r; }
      if (std::fabs(p.lat) == 90 || std::fabs(q.lat) == 90) { r.ok = false; r.why = "rhumb edge with a pole end point"; return r; }
      r.s12 = s; r.S12 = S; r.dlam = d;
    }
    r.tolp = 1e-9L * (1 + fabsl(r.s12) / 1e7L) * (a / 6378137.0);      // rhumb: round-off level (validated in C09)
    r.tolS = 2e-3L * areascale * (1 + fabsl(r.s12) / 1e7L);
    r.sens = fabsl(r.s12) + E.a;
    return r;
  }
  int solver = kind;
  ref::Ode ode(E);
  double azi1, s12, a12;
  if (q_by_edge) { azi1 = q.azi; s12 = q.s; a12 = std::fabs(q.s) / (M_PI / 2 * std::min(E.a, E.b)) * 90; }
  else {
    if (std::fabs(p.lat) == 90 || std::fabs(q.lat) == 90) { r.ok = false; r.why = "pole vertex (longitude convention)"; return r; }
    Inv o = lib_inverse(solver, a, f, p.lat, p.lon, q.lat, q.lon);
    if (!(o.a12 < 179.5)) { r.ok = false; r.why = "non-unique / nearly antipodal shortest edge"; return r; }
    azi1 = o.azi1; s12 = o.s12; a12 = o.a12;
  }
  L circ = (L)a12 / 90;
  r.tolp = kdoc(solver, a, f) * (1 + circ);
  ref::OdeResult R = ode.direct(p.lat, p.lon, azi1, s12, 0, 0.01L * r.tolp);
  if (!(R.err <= 0.05L * r.tolp)) { r.ok = false; r.why = "reference not converged"; return r; }
  // closest approach to the axis is |Lz| (Clairaut) if the edge reaches it: then the longitude swings by ~180 deg
  if (fabsl(R.Lz) < 1 && (fabsl(R.dlam) > 90 || R.rhomin < 1)) { r.ok = false; r.why = "edge passes within 1 m of the axis"; return r; }
  if (!q_by_edge) {
    L pq[3]; ref::to_cart(E, q.lat, q.lon, pq);
    if (!(ref::dist3(pq, R.r) <= r.tolp + 2.3e-16L * 180 * ref::DEG_L * fabsl(R.m12) + 1e-12L)) { r.ok = false; r.why = "inverse solution misses the vertex (C02 domain)"; return r; }
  }
  r.s12 = s12; r.S12 = R.S12; r.dlam = R.dlam;
  // azimuths of an inverse solution move by (end point displacement)/|m12|: matters for nearly antipodal edges
  r.sens = E.c2 * (dalpha_ds_iso(E, p.lat) + dalpha_ds_iso(E, R.lat2) + (q_by_edge ? 0 : 2 / std::max(fabsl(R.m12), 1.0L))) + fabsl((L)s12);
  r.tolS = 2 * 0.1L * areascale * (1 + circ) + 2 * r.sens * r.tolp + 2 * R.errS;
  return r;
}

struct ModelOut { bool ok; std::string why; L perim, area_ccw, tolP, tolA, sens; unsigned n; };

// perimeter and counter-clockwise area (mod A0) of the closed polygon (or open polyline) through v
ModelOut model_eval(int kind, double a, double f, const std::vector<Vtx>& v, bool polyline) {
  ModelOut m; m.ok = true; m.perim = m.area_ccw = m.tolP = m.tolA = m.sens = 0; m.n = (unsigned)v.size();
  ref::Ellipsoid E(a, f);
  size_t n = v.size();
  if (n < 2) return m;     // fewer than 2 points: perimeter 0, area 0 (1 point) as the library returns
  L sumS = 0, sumL = 0;
  size_t nedges = polyline ? n - 1 : n;
  for (size_t i = 0; i < nedges; ++i) {
    size_t j = (i + 1) % n;
    bool by = (j != 0) && v[j].byedge;        // the closing edge is always the shortest line back to vertex 0
    EdgeRef e = edge_ref(kind, a, f, v[i], v[j], by);
    if (!e.ok) { m.ok = false; m.why = e.why; return m; }
    m.perim += fabsl(e.s12); m.tolP += e.tolp + 4e-16L * fabsl(e.s12); sumS += e.S12; sumL += e.dlam; m.tolA += e.tolS + 16 * 2.3e-16L * fabsl(e.S12); m.sens += 2 * e.sens;   // + round-off of the edge area itself
  }
  if (!polyline) {
    L w = roundl(sumL / 360);
    // the vertices close up, so the unrolled longitude changes add to a multiple of 360 (within the edges' accuracy)
    m.area_ccw = -sumS + 2 * ref::PI_L * E.c2 * w;
    m.tolA += 4e-16L * E.c2 * 8 * n;
  }
  return m;
}

L reduce_area(L area_ccw, bool reverse, bool sign, L A0) {
  L x = reverse ? -area_ccw : area_ccw;
  if (sign) { x = remainderl(x, A0); if (x <= -A0 / 2) x += A0; }
  else { x = fmodl(x, A0); if (x < 0) x += A0; }
  return x;
}
// difference of two areas under the library's reduction (values near the wrap point compare modulo A0)
L area_diff(L got, L want, L A0) { return fabsl(remainderl(got - want, A0)); }

template <class P> struct Obj { P p; };

// generic driver over the three back ends
struct Poly {
  int kind; bool polyline;
  std::unique_ptr<Geodesic> g; std::unique_ptr<GeodesicExact> ge; std::unique_ptr<Rhumb> rh;
  std::unique_ptr<PolygonArea> p0; std::unique_ptr<PolygonAreaExact> p1; std::unique_ptr<PolygonAreaRhumb> p2;
  Poly(int k, double a, double f, bool pl) : kind(k), polyline(pl) {
    if (k == 0) { g.reset(new Geodesic(a, f)); p0.reset(new PolygonArea(*g, pl)); }
    else if (k == 1) { ge.reset(new GeodesicExact(a, f)); p1.reset(new PolygonAreaExact(*ge, pl)); }
    else { rh.reset(new Rhumb(a, f, false)); p2.reset(new PolygonAreaRhumb(*rh, pl)); }
  }
  void Clear() { if (p0) p0->Clear(); else if (p1) p1->Clear(); else p2->Clear(); }
  void AddPoint(double la, double lo) { if (p0) p0->AddPoint(la, lo); else if (p1) p1->AddPoint(la, lo); else p2->AddPoint(la, lo); }
  void AddEdge(double az, double s) { if (p0) p0->AddEdge(az, s); else if (p1) p1->AddEdge(az, s); else p2->AddEdge(az, s); }
  unsigned Compute(bool r, bool s, double& P, double& A) const { return p0 ? p0->Compute(r, s, P, A) : p1 ? p1->Compute(r, s, P, A) : p2->Compute(r, s, P, A); }
  unsigned TestPoint(double la, double lo, bool r, bool s, double& P, double& A) const { return p0 ? p0->TestPoint(la, lo, r, s, P, A) : p1 ? p1->TestPoint(la, lo, r, s, P, A) : p2->TestPoint(la, lo, r, s, P, A); }
  unsigned TestEdge(double az, double d, bool r, bool s, double& P, double& A) const { return p0 ? p0->TestEdge(az, d, r, s, P, A) : p1 ? p1->TestEdge(az, d, r, s, P, A) : p2->TestEdge(az, d, r, s, P, A); }
  void CurrentPoint(double& la, double& lo) const { if (p0) p0->CurrentPoint(la, lo); else if (p1) p1->CurrentPoint(la, lo); else p2->CurrentPoint(la, lo); }
};

const double SENT = -7.25e77;

bool dom(int kind, double a, double f) {
  if (!(a > 0) || !std::isfinite(a) || !std::isfinite(f)) return false;
  if (kind == 0) return std::fabs(f) <= 0.02;
  if (kind == 1) return std::fabs(f) <= 0.15;     // below the region of known finding G1
  return std::fabs(f) <= 0.01;
}

// compare a library (perimeter, area) with the model
void cmp_model(Verdict& v, const char* what, int kind, double a, double f, const std::vector<Vtx>& verts, bool polyline,
               bool reverse, bool sign, unsigned nret, double P, double A, bool& skipped) {
  ref::Ellipsoid E(a, f);
  ModelOut m = model_eval(kind, a, f, verts, polyline);
  if (!m.ok) { skipped = true; v.tag("model-refused:" + m.why); return; }
  std::string w(what);
  v.that(nret == m.n, w + ": returned number of points differs from the model");
  if (verts.size() < 2) {
    v.that(P == 0, w + ": perimeter of fewer than 2 points is not 0");
    if (!polyline) v.that(A == 0, w + ": area of fewer than 2 points is not 0");
    return;
  }
  // documented: perimeter 200 nm, area per perimeter class; here per edge: 2 x documented geodesic accuracy
  v.le(fabsl((L)P - m.perim), m.tolP, (w + ": perimeter vs model [m]").c_str());
  if (polyline) v.that(A == SENT, w + ": polyline modified the area argument");
  else v.le(area_diff(A, reduce_area(m.area_ccw, reverse, sign, E.area()), E.area()), m.tolA, (w + ": area vs independent assembly [m^2]").c_str());
  if (!polyline) {
    // range of the reduced area
    if (sign) v.that(A > -(double)E.area() / 2 * (1 + 1e-15) && A <= (double)E.area() / 2 * (1 + 1e-15), w + ": signed area outside (-A0/2, A0/2]");
    else v.that(A >= 0 && A < (double)E.area() * (1 + 1e-15), w + ": area outside [0, A0)");
  }
}

// ---------------------------------------------------------------------------------------------
Verdict check_hist(const J& r) {
  Verdict v; int kind = (int)r.geti("kind"); double a = r.getd("a"), f = r.getd("f"); bool polyline = r.geti("polyline");
  if (kind < 0 || kind > 2 || !dom(kind, a, f)) { v.skip("outside documented domain"); return v; }
  const J& ops = r.at("ops");
  for (auto& o : ops.a) {
    const std::string& t = o.gets("op");
    if (t == "P" || t == "TP") { double la = o.getd("lat"), lo = o.getd("lon"); if (!(std::fabs(la) <= 90) || !(std::fabs(lo) <= 1e5)) { v.skip("vertex outside generated range"); return v; } }
    if (t == "E" || t == "TE") { double az = o.getd("azi"), s = o.getd("s"); if (!(std::fabs(az) <= 1e5) || !(s >= 0 && s <= 12 * 4e7 * a / 6378137.0)) { v.skip("edge outside generated range (negative edge lengths are not a documented input)"); return v; } }
  }
  ref::Ellipsoid E(a, f);
  Poly poly(kind, a, f, polyline);
  std::vector<Vtx> verts;
  bool anyskip = false; int ncompute = 0, nverts_max = 0; bool had_edge = false, had_test = false, had_clear = false;
  for (auto& o : ops.a) {
    const std::string& t = o.gets("op");
    if (t == "X") { poly.Clear(); verts.clear(); had_clear = true; }
    else if (t == "P") { double la = o.getd("lat"), lo = o.getd("lon"); poly.AddPoint(la, lo); verts.push_back({la, lo, false, 0, 0}); }
    else if (t == "E") {
      double az = o.getd("azi"), s = o.getd("s");
      poly.AddEdge(az, s);
      if (!verts.empty()) {      // documented: AddEdge does nothing if no points have been added
        double la, lo; poly.CurrentPoint(la, lo);
        // the new vertex must be the end of the edge (reference: ODE / rhumb direct)
        if (kind != 2) {
          L tolp = kdoc(kind, a, f) * (1 + std::fabs(s) / (M_PI / 2 * std::min(E.a, E.b)));
          ref::OdeResult R = ref::Ode(E).direct(verts.back().lat, verts.back().lon, az, s, 0, 0.01L * tolp);
          L p[3]; ref::to_cart(E, la, lo, p);
          if (R.err <= 0.05L * tolp) v.le(ref::dist3(p, R.r), tolp + 2.3e-16L * fabsl((L)lo) * ref::DEG_L * E.a, "AddEdge: new current point vs ODE end point [m]");
        }
        verts.push_back({la, lo, true, az, s}); had_edge = true;
      } else {
        double la = 1, lo = 1; poly.CurrentPoint(la, lo);
        v.that(std::isnan(la) && std::isnan(lo), "CurrentPoint of an empty polygon is not NaN");
      }
    } else if (t == "CP") {
      double la = 1, lo = 1; poly.CurrentPoint(la, lo);
      if (verts.empty()) v.that(std::isnan(la) && std::isnan(lo), "CurrentPoint of an empty polygon is not NaN");
      else v.that(std::memcmp(&la, &verts.back().lat, 8) == 0 && std::memcmp(&lo, &verts.back().lon, 8) == 0, "CurrentPoint differs from the last vertex");
    } else if (t == "C") {
      bool rev = o.geti("rev"), sg = o.geti("sign"); double P = SENT, A = SENT;
      unsigned n = poly.Compute(rev, sg, P, A);
      cmp_model(v, "Compute", kind, a, f, verts, polyline, rev, sg, n, P, A, anyskip); ++ncompute;
    } else if (t == "TP" || t == "TE") {
      bool rev = o.geti("rev"), sg = o.geti("sign");
      double P0 = SENT, A0 = SENT, P1 = SENT, A1 = SENT, P = SENT, A = SENT;
      unsigned n0 = poly.Compute(rev, sg, P0, A0);
      std::vector<Vtx> w = verts; unsigned n;
      if (t == "TP") { double la = o.getd("lat"), lo = o.getd("lon"); n = poly.TestPoint(la, lo, rev, sg, P, A); w.push_back({la, lo, false, 0, 0});
        cmp_model(v, "TestPoint", kind, a, f, w, polyline, rev, sg, n, P, A, anyskip); }
      else {
        double az = o.getd("azi"), s = o.getd("s"); n = poly.TestEdge(az, s, rev, sg, P, A);
        if (verts.empty()) { v.that(n == 0 && std::isnan(P) && (polyline || std::isnan(A)), "TestEdge on an empty polygon must return 0 points and NaN"); }
        else {
          // end point of the tentative edge from the already checked direct solution
          double la, lo;
          if (kind == 2) { double S; Rhumb(a, f, false).GenDirect(verts.back().lat, verts.back().lon, az, s, Rhumb::LATITUDE | Rhumb::LONGITUDE | Rhumb::LONG_UNROLL, la, lo, S); }
          else { Dir d = lib_direct(kind, a, f, verts.back().lat, verts.back().lon, az, false, s, true); la = d.lat2; lo = d.lon2; }
          w.push_back({la, lo, true, az, s});
          cmp_model(v, "TestEdge", kind, a, f, w, polyline, rev, sg, n, P, A, anyskip);
        }
      }
      // the object is unchanged: Compute is bit-identical to the one before the test
      unsigned n1 = poly.Compute(rev, sg, P1, A1);
      v.that(n1 == n0 && std::memcmp(&P1, &P0, 8) == 0 && std::memcmp(&A1, &A0, 8) == 0, "Test" + std::string(t == "TP" ? "Point" : "Edge") + " changed the polygon (Compute differs afterwards)");
      had_test = true;
    }
    nverts_max = std::max<int>(nverts_max, (int)verts.size());
    if (v.failed()) return v;
  }
  // Clear == fresh object: replay the current vertex list into a fresh object and compare bit for bit
  {
    Poly fresh(kind, a, f, polyline);
    for (auto& x : verts) { if (x.byedge) fresh.AddEdge(x.azi, x.s); else fresh.AddPoint(x.lat, x.lon); }
    double P0 = SENT, A0 = SENT, P1 = SENT, A1 = SENT;
    unsigned n0 = poly.Compute(false, true, P0, A0), n1 = fresh.Compute(false, true, P1, A1);
    if (had_clear) v.that(n0 == n1 && std::memcmp(&P1, &P0, 8) == 0 && std::memcmp(&A1, &A0, 8) == 0, "state after Clear + re-adding differs from a fresh object");
  }
  v.nontrivial = nverts_max >= 3 && ncompute > 0 && !anyskip;
  v.tag(kind == 0 ? "geodesic" : kind == 1 ? "exact" : "rhumb"); v.tag(polyline ? "polyline" : "polygon");
  if (had_edge) v.tag("has-AddEdge"); if (had_test) v.tag("has-Test"); if (had_clear) v.tag("has-Clear"); if (anyskip) v.tag("some-step-not-judged");
  return v;
}

// ---------------------------------------------------------------------------------------------
void lib_poly(int kind, double a, double f, const std::vector<Vtx>& v, bool rev, bool sg, double& P, double& A) {
  Poly p(kind, a, f, false);
  for (auto& x : v) p.AddPoint(x.lat, x.lon);
  p.Compute(rev, sg, P, A);
}

Verdict check_meta(const J& r) {
  Verdict v; int kind = (int)r.geti("kind"); double a = r.getd("a"), f = r.getd("f");
  if (kind < 0 || kind > 2 || !dom(kind, a, f)) { v.skip("outside documented domain"); return v; }
  std::vector<Vtx> P;
  for (auto& o : r.at("verts").a) { double la = o.getd("lat"), lo = o.getd("lon"); if (!(std::fabs(la) <= 90) || !(std::fabs(lo) <= 1e5)) { v.skip("vertex outside generated range"); return v; } P.push_back({la, lo, false, 0, 0}); }
  size_t n = P.size(); if (n < 3 || n > 40) { v.skip("fewer than 3 vertices"); return v; }
  ref::Ellipsoid E(a, f); L A0 = E.area();
  // uniqueness precondition and model (also gives the tolerance)
  ModelOut m = model_eval(kind, a, f, P, false);
  if (!m.ok) { v.skip("model refused: " + m.why); return v; }
  double p0, a0; lib_poly(kind, a, f, P, false, true, p0, a0);
  L tA = 2 * m.tolA, tP = 2 * m.tolP;
  v.le(area_diff(a0, reduce_area(m.area_ccw, false, true, A0), A0), m.tolA, "area vs independent assembly [m^2]");
  v.le(fabsl((L)p0 - m.perim), m.tolP, "perimeter vs model [m]");
  // (1) which vertex comes first
  { size_t k = (size_t)r.geti("rot") % n; std::vector<Vtx> Q(P.begin() + k, P.end()); Q.insert(Q.end(), P.begin(), P.begin() + k);
    double p1, a1; lib_poly(kind, a, f, Q, false, true, p1, a1);
    v.le(area_diff(a1, a0, A0), tA, "start vertex changed: area [m^2]"); v.le(fabsl((L)p1 - (L)p0), tP, "start vertex changed: perimeter [m]"); }
  // (2) traversal order reversed == reverse flag
  { std::vector<Vtx> Q(P.rbegin(), P.rend()); double p1, a1; lib_poly(kind, a, f, Q, true, true, p1, a1);
    v.le(area_diff(a1, a0, A0), tA, "reversed order with reverse flag: area [m^2]"); v.le(fabsl((L)p1 - (L)p0), tP, "reversed order: perimeter [m]");
    double p2, a2; lib_poly(kind, a, f, Q, false, true, p2, a2);
    v.le(area_diff(a2, -(L)a0, A0), tA, "reversed order without the flag: area is not negated [m^2]"); }
  // (3) the four reverse/sign combinations
  { double pp, ars, ar, as_; lib_poly(kind, a, f, P, true, true, pp, ars); lib_poly(kind, a, f, P, true, false, pp, ar); lib_poly(kind, a, f, P, false, false, pp, as_);
    v.le(area_diff(ars, -(L)a0, A0), tA, "reverse flag does not negate the signed area [m^2]");
    v.le(area_diff(as_, (L)a0, A0), tA, "unsigned area not congruent to the signed area [m^2]");
    v.le(area_diff(ar, -(L)a0, A0), tA, "reverse unsigned area not congruent to minus the signed area [m^2]");
    v.that(as_ >= 0 && as_ <= (double)A0 * (1 + 1e-15) && ar >= 0 && ar <= (double)A0 * (1 + 1e-15), "unsigned area outside [0, A0]");
    // complement: unsigned(reverse) = A0 - unsigned(direct) unless the area is 0
    if (as_ > (double)tA && as_ < (double)(A0 - tA)) v.le(fabsl((L)as_ + (L)ar - A0), tA, "areas with and without reverse do not add to the ellipsoid area [m^2]"); }
  // (4) constant longitude shift, and +360k on single longitudes
  { double sh = r.getd("shift"); std::vector<Vtx> Q = P; L extra = 0;
    for (auto& x : Q) { double nl = x.lon + sh; extra = std::max(extra, fabsl(((L)nl - (L)x.lon) - (L)sh)); x.lon = nl; }
    // the shifted longitudes are rounded: allow for the displacement of the vertices (area change ~ perimeter * displacement)
    L disp = extra * ref::DEG_L * E.a;
    double p1, a1; lib_poly(kind, a, f, Q, false, true, p1, a1);
    v.le(area_diff(a1, a0, A0), tA + disp * m.sens, "constant longitude shift: area [m^2]"); v.le(fabsl((L)p1 - (L)p0), tP + 2 * n * disp, "constant longitude shift: perimeter [m]");
    std::vector<Vtx> R2 = P; L extra2 = 0; const J& ks = r.at("k360");
    for (size_t i = 0; i < n; ++i) { double k = 360.0 * (double)ks.a[i % ks.a.size()].asd(); double nl = R2[i].lon + k; extra2 = std::max(extra2, fabsl(((L)nl - (L)R2[i].lon) - (L)k)); R2[i].lon = nl; }
    L disp2 = extra2 * ref::DEG_L * E.a;
    double p2, a2; lib_poly(kind, a, f, R2, false, true, p2, a2);
    v.le(area_diff(a2, a0, A0), tA + disp2 * m.sens, "longitudes changed by multiples of 360: area [m^2]"); v.le(fabsl((L)p2 - (L)p0), tP + 2 * n * disp2, "longitudes changed by multiples of 360: perimeter [m]"); }
  // (5) cut along a diagonal
  if (n >= 4) {
    size_t i = (size_t)r.geti("cut_i") % n, j = (i + 2 + (size_t)r.geti("cut_j") % (n - 3)) % n; if (i > j) std::swap(i, j);
    if (j - i >= 2 && !(i == 0 && j == n - 1)) {
      std::vector<Vtx> Q1(P.begin() + i, P.begin() + j + 1), Q2(P.begin() + j, P.end()); Q2.insert(Q2.end(), P.begin(), P.begin() + i + 1);
      ModelOut m1 = model_eval(kind, a, f, Q1, false), m2 = model_eval(kind, a, f, Q2, false);
      if (m1.ok && m2.ok) {
        double p1, a1, p2, a2; lib_poly(kind, a, f, Q1, false, true, p1, a1); lib_poly(kind, a, f, Q2, false, true, p2, a2);
        EdgeRef d = edge_ref(kind, a, f, P[i], P[j], false);
        if (d.ok) {
          v.le(area_diff((L)a1 + (L)a2, a0, A0), tA + m1.tolA + m2.tolA, "cut along a diagonal: areas do not add (mod ellipsoid area) [m^2]");
          v.le(fabsl((L)p1 + (L)p2 - 2 * fabsl(d.s12) - (L)p0), tP + m1.tolP + m2.tolP + 2 * d.tolp, "cut along a diagonal: perimeters [m]");
          v.tag("cut-checked");
        }
      }
    }
  }
  v.tag(kind == 0 ? "geodesic" : kind == 1 ? "exact" : "rhumb");
  L w = 0; for (size_t i = 0; i < n; ++i) w += remainderl((L)P[(i + 1) % n].lon - (L)P[i].lon, 360.0L);
  if (fabsl(w) > 180) v.tag("pole-enclosing");
  return v;
}

// ---------------------------------------------------------------------------------------------
// generators
struct Shape { std::vector<std::pair<double, double>> pts; std::string tag; };
Shape gen_shape() {
  using namespace vf;
  Shape s; int n = (int)g::sized(3, 10); if (n < 3) n = 3;
  switch (g::wpick({30, 20, 20, 15, 15})) {
    case 0: { s.tag = "small"; double clat = g::uni(-80, 80), clon = gg::angle180(), rad = g::loguni(1e-6, 5);
      for (int i = 0; i < n; ++i) { double th = 2 * M_PI * (i + g::uni(0, 0.7)) / n * (g::coin() ? 1 : 1); s.pts.push_back({clat + rad * std::cos(th), clon + rad * std::sin(th) / std::cos(clat * M_PI / 180)}); } break; }
    case 1: { s.tag = "large"; for (int i = 0; i < n; ++i) s.pts.push_back({g::uni(-85, 85), g::uni(-180, 180)}); break; }
    case 2: { s.tag = "pole-enclosing"; double sg = g::sgn(), lat = g::uni(30, 89); bool east = g::coin();
      for (int i = 0; i < n; ++i) { double lo = -180 + 360.0 * (i + g::uni(0, 0.5)) / n; s.pts.push_back({sg * (lat + g::uni(-10, 1)), east ? lo : -lo}); } break; }
    case 3: { s.tag = "meridian-vertices"; double l0 = g::oneof<double>({0, 180, -180, 360, 90});
      for (int i = 0; i < n; ++i) s.pts.push_back({g::uni(-80, 80), (i % 2 ? l0 : l0 + g::sgn() * g::loguni(1e-9, 30)) }); break; }
    default: { s.tag = "degenerate"; double clat = g::uni(-60, 60), clon = gg::angle180();
      for (int i = 0; i < n; ++i) { if (i && g::coin(1, 3)) s.pts.push_back(s.pts.back()); else s.pts.push_back({clat + g::uni(-20, 20), clon + g::uni(-40, 40)}); } break; }
  }
  for (auto& p : s.pts) { if (p.first > 90) p.first = 90; if (p.first < -90) p.first = -90; }
  if (g::coin(1, 8)) s.pts[(size_t)g::irange(0, n - 1)].first = g::sgn() * 90;
  return s;
}
void put_ell(J& r, int kind) {
  gg::Ell e = gg::ellipsoid(gg::SERIES_FULL);
  if (kind == 2 && std::fabs(e.f) > 0.01) e.f *= 0.4;
  if (vf::g::coin(2, 3)) e.a = gg::A_WGS84;
  r["kind"] = J::integer(kind); r["a"] = J::num(e.a); r["f"] = J::num(e.f);
}

J gen_hist() {
  using namespace vf;
  J r = J::obj(); int kind = (int)g::irange(0, 2); put_ell(r, kind); r["polyline"] = J::integer(g::coin(1, 4));
  Shape s = gen_shape(); J ops = J::arr(); size_t next = 0; int len = (int)g::sized(3, 30); if (len < 4) len = 4;
  double scale = r.getd("a");
  for (int i = 0; i < len; ++i) {
    J o = J::obj();
    switch (g::wpick({40, 12, 10, 8, 18, 4, 8})) {
      case 0: { auto p = s.pts[next % s.pts.size()]; ++next; o["op"] = J::str("P"); o["lat"] = J::num(p.first); o["lon"] = J::num(p.second + (g::coin(1, 6) ? 360.0 * (double)g::irange(-2, 2) : 0.0)); break; }
      case 1: { o["op"] = J::str("E"); o["azi"] = J::num(gg::angle180()); o["s"] = J::num(g::coin(1, 5) ? g::uni(0, 10 * 2 * M_PI * scale) : (g::coin(1, 10) ? 0.0 : g::loguni(1e-3, 1.5e7) * scale / 6378137.0)); break; }
      case 2: { auto p = s.pts[(next + 1) % s.pts.size()]; o["op"] = J::str("TP"); o["lat"] = J::num(p.first); o["lon"] = J::num(p.second); o["rev"] = J::integer(g::coin()); o["sign"] = J::integer(g::coin()); break; }
      case 3: { o["op"] = J::str("TE"); o["azi"] = J::num(gg::angle180()); o["s"] = J::num(g::loguni(1e-3, 1.5e7) * scale / 6378137.0); o["rev"] = J::integer(g::coin()); o["sign"] = J::integer(g::coin()); break; }
      case 4: { o["op"] = J::str("C"); o["rev"] = J::integer(g::coin()); o["sign"] = J::integer(g::coin()); break; }
      case 5: { o["op"] = J::str("X"); break; }
      default: { o["op"] = J::str("CP"); break; }
    }
    ops.push(o);
  }
  J c = J::obj(); c["op"] = J::str("C"); c["rev"] = J::integer(g::coin()); c["sign"] = J::integer(g::coin()); ops.push(c);
  r["ops"] = ops; r["shape"] = J::str(s.tag);
  return r;
}
J gen_meta() {
  using namespace vf;
  J r = J::obj(); int kind = (int)g::irange(0, 2); put_ell(r, kind);
  Shape s = gen_shape(); J vs = J::arr();
  for (auto& p : s.pts) { J o = J::obj(); o["lat"] = J::num(p.first); o["lon"] = J::num(p.second); vs.push(o); }
  r["verts"] = vs; r["shape"] = J::str(s.tag);
  r["rot"] = J::integer(g::irange(0, 40)); r["shift"] = J::num(g::coin() ? (double)g::irange(-720, 720) : g::uni(-400, 400));
  J ks = J::arr(); for (int i = 0; i < 5; ++i) ks.push(J::integer(g::irange(-3, 3))); r["k360"] = ks;
  r["cut_i"] = J::integer(g::irange(0, 40)); r["cut_j"] = J::integer(g::irange(0, 40));
  return r;
}

vf::Reg r1({"C08.hist", "generated edit histories (3-30 ops over Clear/AddPoint/AddEdge/TestPoint/TestEdge/Compute/CurrentPoint) on the three back ends, polygon and polyline, shapes: small, large, pole-enclosing, vertices on lon 0/180/360, repeated vertices, pole vertices, AddEdge up to 10 circuits; non-trivial: >= 3 vertices, >= 1 Compute and every step judged by the model", 0.6,
            [] { return rc::gen::exec([] { return gen_hist(); }); }, check_hist, nullptr});
vf::Reg r2({"C08.meta", "generated vertex lists (same shapes): start vertex, order reversal, reverse/sign flags, constant and per-vertex 360k longitude shifts, cut along a diagonal; non-trivial: model accepted the polygon (unique shortest edges)", 0.4,
            [] { return rc::gen::exec([] { return gen_meta(); }); }, check_meta, nullptr});

}  // namespace

VF_MAIN
