// C12 — output-mask independence, line-object self-consistency (DESIGN 3/C12)
//   C12.mask   Gen{Direct,Inverse} of Geodesic / GeodesicExact / Geodesic(exact) and Rhumb{,exact}: for EVERY subset of
//              the output bits (x LONG_UNROLL), requested outputs equal the ALL-mask outputs (round-off), unrequested
//              outputs keep their sentinel bit patterns (two different sentinels)
//   C12.caps   line objects created with every capability subset: GenPosition computes exactly (outmask & caps),
//              everything else untouched; distance-mode without DISTANCE_IN and uninitialised lines return NaN
//   C12.pos    Position(s) == ArcPosition(a12 returned) and vice versa; line.Position == solver.Direct
//   C12.third  SetDistance / SetArc / DirectLine / ArcDirectLine / InverseLine: Distance(), Arc() consistent and
//              Position(Distance()) is the defining end point
// The mask dimension is enumerated exhaustively per generated geodesic; geodesics are sampled.
#include "props/geod_common.hpp"
#include <GeographicLib/Rhumb.hpp>
#include <cstring>

using namespace gc;

namespace {

const unsigned OUTBITS[7] = {Geodesic::LATITUDE, Geodesic::LONGITUDE, Geodesic::AZIMUTH, Geodesic::DISTANCE,
                             Geodesic::REDUCEDLENGTH, Geodesic::GEODESICSCALE, Geodesic::AREA};

double sentinel(int which, int slot) {
  // distinct finite / NaN-payload sentinels
  if (which == 0) return -12345.678 - slot;
  uint64_t bits = 0x7ff8000000000000ULL | (0xabc00ULL + (uint64_t)slot);
  double d; std::memcpy(&d, &bits, 8); return d;
}
bool same_bits(double x, double y) { return std::memcmp(&x, &y, 8) == 0; }

struct Outs { double v[9]; double ret; };   // lat2/azi1, lon2, azi2, s12, m12, M12, M21, S12 (+ unused)
// mask bit owning each output slot: direct: lat2 lon2 azi2 s12 m12 M12 M21 S12
const unsigned DIRECT_OWNER[8] = {Geodesic::LATITUDE, Geodesic::LONGITUDE, Geodesic::AZIMUTH, Geodesic::DISTANCE,
                                  Geodesic::REDUCEDLENGTH, Geodesic::GEODESICSCALE, Geodesic::GEODESICSCALE, Geodesic::AREA};
// inverse: s12 azi1 azi2 m12 M12 M21 S12
const unsigned INVERSE_OWNER[7] = {Geodesic::DISTANCE, Geodesic::AZIMUTH, Geodesic::AZIMUTH, Geodesic::REDUCEDLENGTH,
                                   Geodesic::GEODESICSCALE, Geodesic::GEODESICSCALE, Geodesic::AREA};

Outs call_direct(int solver, double a, double f, double lat1, double lon1, double azi1, bool arc, double len, unsigned mask, int sent) {
  Outs o; for (int i = 0; i < 8; ++i) o.v[i] = sentinel(sent, i);
  double* v = o.v;
  switch (solver) {
    case 0: { Geodesic g(a, f); o.ret = g.GenDirect(lat1, lon1, azi1, arc, len, mask, v[0], v[1], v[2], v[3], v[4], v[5], v[6], v[7]); break; }
    case 1: { GeodesicExact g(a, f); o.ret = g.GenDirect(lat1, lon1, azi1, arc, len, mask, v[0], v[1], v[2], v[3], v[4], v[5], v[6], v[7]); break; }
    default: { Geodesic g(a, f, true); o.ret = g.GenDirect(lat1, lon1, azi1, arc, len, mask, v[0], v[1], v[2], v[3], v[4], v[5], v[6], v[7]); break; }
  }
  return o;
}
Outs call_inverse(int solver, double a, double f, double lat1, double lon1, double lat2, double lon2, unsigned mask, int sent) {
  Outs o; for (int i = 0; i < 7; ++i) o.v[i] = sentinel(sent, i);
  double* v = o.v;
  switch (solver) {
    case 0: { Geodesic g(a, f); o.ret = g.GenInverse(lat1, lon1, lat2, lon2, mask, v[0], v[1], v[2], v[3], v[4], v[5], v[6]); break; }
    case 1: { GeodesicExact g(a, f); o.ret = g.GenInverse(lat1, lon1, lat2, lon2, mask, v[0], v[1], v[2], v[3], v[4], v[5], v[6]); break; }
    default: { Geodesic g(a, f, true); o.ret = g.GenInverse(lat1, lon1, lat2, lon2, mask, v[0], v[1], v[2], v[3], v[4], v[5], v[6]); break; }
  }
  return o;
}

// round-off scale of each output, given the ALL-mask result (the property allows round-off: there is an
// alternative path for the reduced length when the distance is not requested)
struct Scale { L ang, lon, len, M, S; };
Scale scales(const ref::Ellipsoid& E, double lat2, double a12, bool exact) {
  Scale s; L eps = 2.3e-16L, K = exact ? 512 : 64; L circ = 1 + fabsl((L)a12) / 90;
  L sphi, cphi; ref::Ode::sincosd(lat2, sphi, cphi);
  s.ang = K * eps * 180 * circ;
  s.lon = K * eps * 180 * circ / std::max(cphi, 1e-300L);
  s.len = K * eps * std::max(E.a, E.b) * circ;
  s.M = K * eps * circ;
  s.S = K * eps * E.c2 * circ * (1 + fabsl(sphi) / std::max(cphi, 1e-300L) * 1e-9L);
  return s;
}

J gen_geod(bool inverse) {
  int solver = (int)vf::g::irange(0, 2);
  // (the series solver as well on the wide range |f| <= 0.2 in a third of its cases: GeodesicLine has code that only runs
  //  for |f| > 0.01, and self-consistency does not depend on the accuracy there)
  gg::Ell e = gg::ellipsoid(solver_exact(solver) || vf::g::coin(1, 3) ? gg::SERIES_WIDE : gg::SERIES_FULL);
  J r = J::obj(); r["solver"] = J::integer(solver); r["a"] = J::num(e.a); r["f"] = J::num(e.f);
  if (inverse) { put_pair(r, pointpair(e.a, e.f)); }
  else {
    r["lat1"] = J::num(gg::latitude()); r["lon1"] = J::num(gg::angle()); r["azi1"] = J::num(gg::angle());
    bool arc = vf::g::coin(); r["arcmode"] = J::integer(arc);
    r["len"] = J::num(arc ? (vf::g::coin(3, 4) ? vf::g::uni(-180, 180) : vf::g::uni(-2000, 2000)) : gg::distance(e.a, 5));
  }
  return r;
}
bool get_dir(const J& r, int& solver, double& a, double& f, double& lat1, double& lon1, double& azi1, bool& arc, double& len) {
  solver = (int)r.geti("solver"); a = r.getd("a"); f = r.getd("f"); lat1 = r.getd("lat1"); lon1 = r.getd("lon1");
  azi1 = r.getd("azi1"); arc = r.geti("arcmode"); len = r.getd("len");
  if (solver < 0 || solver > 2 || !in_domain(solver, a, f) || !(std::fabs(lat1) <= 90) || !std::isfinite(lon1) || !std::isfinite(azi1) || !std::isfinite(len)) return false;
  if (std::fabs(lon1) > 1e6 || std::fabs(azi1) > 1e6 || (arc ? std::fabs(len) > 1e4 : std::fabs(len) > 25 * 2 * M_PI * a)) return false;
  return true;
}

// ---------------------------------------------------------------------------------------------
Verdict check_mask_direct(const J& r) {
  Verdict v; int solver; double a, f, lat1, lon1, azi1, len; bool arc;
  if (!get_dir(r, solver, a, f, lat1, lon1, azi1, arc, len)) { v.skip("outside documented domain"); return v; }
  ref::Ellipsoid E(a, f);
  {
    // LONG_UNROLL is part of the mask as well: it may change lon2 by a multiple of 360 degrees and nothing else
    Outs w = call_direct(solver, a, f, lat1, lon1, azi1, arc, len, Geodesic::ALL, 0);
    Outs u = call_direct(solver, a, f, lat1, lon1, azi1, arc, len, Geodesic::ALL | Geodesic::LONG_UNROLL, 0);
    Scale sc = scales(E, w.v[0], w.ret, solver_exact(solver));
    L tolv[8] = {sc.ang, 0, sc.ang, sc.len, sc.len, sc.M, sc.M, sc.S};
    v.le(fabsl((L)u.ret - (L)w.ret), sc.ang, "returned a12 depends on LONG_UNROLL [deg]");
    for (int i = 0; i < 8; ++i) {
      char nm[96]; std::snprintf(nm, sizeof nm, "direct output %d depends on LONG_UNROLL", i);
      if (i == 1) { if (std::isfinite(w.v[1]) && std::isfinite(u.v[1])) v.le(fabsl(remainderl((L)u.v[1] - (L)w.v[1], 360.0L)), sc.lon + 8e-16L * (fabsl((L)u.v[1]) + fabsl((L)lon1) + 360), "direct lon2 with vs without LONG_UNROLL (mod 360) [deg]"); }
      else if (std::isnan(w.v[i]) || std::isnan(u.v[i])) v.that(std::isnan(w.v[i]) && std::isnan(u.v[i]), nm);
      else v.le(fabsl((L)u.v[i] - (L)w.v[i]), tolv[i], nm);
    }
    if (v.failed()) return v;
  }
  for (int unroll = 0; unroll < 2; ++unroll) {
    unsigned U = unroll ? Geodesic::LONG_UNROLL : 0u;
    Outs all = call_direct(solver, a, f, lat1, lon1, azi1, arc, len, Geodesic::ALL | U, 0);
    Scale sc = scales(E, all.v[0], all.ret, solver_exact(solver));
    L tolv[8] = {sc.ang, sc.lon + 4e-16L * fabsl((L)all.v[1]), sc.ang, sc.len, sc.len, sc.M, sc.M, sc.S};
    for (unsigned m = 0; m < 128; ++m) {
      unsigned mask = 0; for (int b = 0; b < 7; ++b) if (m & (1u << b)) mask |= OUTBITS[b];
      for (int sent = 0; sent < 2; ++sent) {
        Outs o = call_direct(solver, a, f, lat1, lon1, azi1, arc, len, mask | U, sent);
        v.le(fabsl((L)o.ret - (L)all.ret), sc.ang, "returned a12 depends on the mask [deg]");
        for (int i = 0; i < 8; ++i) {
          bool req = (mask & DIRECT_OWNER[i] & 0x7F80u) != 0;   // output bits only (masks also carry capability bits)
          // in arc mode the distance, in distance mode nothing extra, is implied; s12 is only set with DISTANCE
          char nm[96];
          if (req) { std::snprintf(nm, sizeof nm, "direct output %d with mask 0x%x vs ALL", i, mask | U); v.le(fabsl((L)o.v[i] - (L)all.v[i]), tolv[i], nm); }
          else { std::snprintf(nm, sizeof nm, "direct output %d not requested by mask 0x%x was modified", i, mask | U); v.that(same_bits(o.v[i], sentinel(sent, i)), nm); }
          if (v.failed()) return v;
        }
      }
    }
  }
  v.tag(solver_exact(solver) ? "exact" : "series"); v.tag(arc ? "arcmode" : "distmode"); v.nontrivial = len != 0;
  return v;
}

Verdict check_mask_inverse(const J& r) {
  Verdict v; int solver = (int)r.geti("solver"); double a = r.getd("a"), f = r.getd("f");
  double lat1 = r.getd("lat1"), lon1 = r.getd("lon1"), lat2 = r.getd("lat2"), lon2 = r.getd("lon2");
  if (solver < 0 || solver > 2 || !in_domain(solver, a, f) || !(std::fabs(lat1) <= 90) || !(std::fabs(lat2) <= 90) || !std::isfinite(lon1) || !std::isfinite(lon2) || std::fabs(lon1) > 1e6 || std::fabs(lon2) > 1e6) { v.skip("outside documented domain"); return v; }
  ref::Ellipsoid E(a, f);
  Outs all = call_inverse(solver, a, f, lat1, lon1, lat2, lon2, Geodesic::ALL, 0);
  Scale sc = scales(E, lat2, all.ret, solver_exact(solver));
  // azimuths of an inverse solution are conditioned by 1/|m12| only through the solution itself; with a
  // different mask the same iteration is run, so only round-off of the final assembly is allowed
  L tolv[7] = {sc.len, sc.ang, sc.ang, sc.len, sc.M, sc.M, sc.S};
  for (unsigned m = 0; m < 128; ++m) {
    unsigned mask = 0; for (int b = 0; b < 7; ++b) if (m & (1u << b)) mask |= OUTBITS[b];
    for (int sent = 0; sent < 2; ++sent) {
      Outs o = call_inverse(solver, a, f, lat1, lon1, lat2, lon2, mask, sent);
      v.le(fabsl((L)o.ret - (L)all.ret), sc.ang, "returned a12 depends on the mask [deg]");
      for (int i = 0; i < 7; ++i) {
        bool req = (mask & INVERSE_OWNER[i] & 0x7F80u) != 0; char nm[96];
        if (req) { std::snprintf(nm, sizeof nm, "inverse output %d with mask 0x%x vs ALL", i, mask); v.le(fabsl((L)o.v[i] - (L)all.v[i]), tolv[i], nm); }
        else { std::snprintf(nm, sizeof nm, "inverse output %d not requested by mask 0x%x was modified", i, mask); v.that(same_bits(o.v[i], sentinel(sent, i)), nm); }
        if (v.failed()) return v;
      }
    }
  }
  v.tag(solver_exact(solver) ? "exact" : "series"); v.tag(r.has("kind") ? r.gets("kind") : "?"); v.nontrivial = all.v[0] > 0;
  return v;
}

// rhumb: bits LATITUDE LONGITUDE AZIMUTH DISTANCE AREA (+ LONG_UNROLL)
Verdict check_mask_rhumb(const J& r) {
  Verdict v; double a = r.getd("a"), f = r.getd("f"); bool exact = r.geti("exact");
  double lat1 = r.getd("lat1"), lon1 = r.getd("lon1"), azi = r.getd("azi1"), s12 = r.getd("len"), lat2 = r.getd("lat2"), lon2 = r.getd("lon2");
  if (!(a > 0) || !std::isfinite(a) || !(std::fabs(f) <= (exact ? 0.9 : 0.01)) || !(std::fabs(lat1) <= 90) || !(std::fabs(lat2) <= 90) || !std::isfinite(lon1) || !std::isfinite(lon2) || !std::isfinite(azi) || !std::isfinite(s12) ||
      std::fabs(lon1) > 1e6 || std::fabs(lon2) > 1e6 || std::fabs(azi) > 1e6 || std::fabs(s12) > 1e9 * a / 6.4e6) { v.skip("outside documented domain"); return v; }
  Rhumb rh(a, f, exact);
  const unsigned RB[5] = {Rhumb::LATITUDE, Rhumb::LONGITUDE, Rhumb::AZIMUTH, Rhumb::DISTANCE, Rhumb::AREA};
  ref::Ellipsoid E(a, f);
  L eps = 2.3e-16L;
  {
    // LONG_UNROLL is an output-mask bit too: it may change lon2 by a multiple of 360 degrees only; lat2 and S12 must not
    // depend on it (a rhumb line sweeping more than 180 degrees of longitude has the same area either way)
    double la0, lo0, S0, la1, lo1, S1;
    rh.GenDirect(lat1, lon1, azi, s12, Rhumb::ALL, la0, lo0, S0);
    rh.GenDirect(lat1, lon1, azi, s12, Rhumb::ALL | Rhumb::LONG_UNROLL, la1, lo1, S1);
    auto same = [](double p, double q) { return p == q || (std::isnan(p) && std::isnan(q)); };
    v.that(same(la0, la1), "rhumb direct lat2 depends on LONG_UNROLL");
    if (std::isnan(S0) || std::isinf(S0)) v.that(same(S0, S1), "rhumb direct S12 depends on LONG_UNROLL (non-finite)");
    else v.le(fabsl((L)S0 - (L)S1), 64 * eps * E.c2 * (10 + fabsl((L)lo1 - (L)lon1) / 57.3L), "rhumb direct S12 with vs without LONG_UNROLL [m^2]");
    if (std::isfinite(lo0) && std::isfinite(lo1)) {
      L d = remainderl((L)lo1 - (L)lo0, 360.0L);
      v.le(fabsl(d), 64 * eps * (360 + fabsl((L)lo1) + fabsl((L)lon1)), "rhumb direct lon2 with vs without LONG_UNROLL (mod 360) [deg]");
      if (std::fabs(lo1 - lon1) > 180) v.tag("rhumb-sweep>180");
    } else   // from a pole start lon2 is not finite (inf unrolled, NaN once wrapped; the header's promise of finite values there
             // is known finding C09-pole-endpoint-nonfinite): both settings must agree that it is not a number
      v.that(!std::isfinite(lo0) && !std::isfinite(lo1), "rhumb direct lon2 finite with one setting of LONG_UNROLL and not with the other");
    if (v.failed()) return v;
  }
  for (int unroll = 0; unroll < 2; ++unroll) {
    unsigned U = unroll ? Rhumb::LONG_UNROLL : 0u;
    double La, Lo, S; rh.GenDirect(lat1, lon1, azi, s12, Rhumb::ALL | U, La, Lo, S);
    RhumbLine rl = rh.Line(lat1, lon1, azi);
    double Ia, Io, IS; rh.GenInverse(lat1, lon1, lat2, lon2, Rhumb::ALL, Ia, Io, IS);
    for (unsigned m = 0; m < 32; ++m) {
      unsigned mask = 0; for (int b = 0; b < 5; ++b) if (m & (1u << b)) mask |= RB[b];
      for (int sent = 0; sent < 2; ++sent) {
        double la = sentinel(sent, 0), lo = sentinel(sent, 1), S2 = sentinel(sent, 2);
        rh.GenDirect(lat1, lon1, azi, s12, mask | U, la, lo, S2);
        double pla = sentinel(sent, 0), plo = sentinel(sent, 1), pS = sentinel(sent, 2);
        rl.GenPosition(s12, mask | U, pla, plo, pS);
        auto cmp = [&](double got, double ref_, L tol, const char* what) {
          if (std::isnan(ref_)) v.that(std::isnan(got), std::string(what) + ": ALL-mask value is NaN but masked value is not");
          else if (std::isinf(ref_)) v.that(got == ref_, std::string(what) + ": ALL-mask value is infinite but masked value differs");
          else v.le(fabsl((L)got - (L)ref_), tol, what);
        };
        L tl = 64 * eps * 180, tlo = 64 * eps * (180 + fabsl((L)Lo)) , tS = 64 * eps * E.c2 * 10;
        if (mask & Rhumb::LATITUDE) { cmp(la, La, tl, "rhumb direct lat2 vs ALL"); cmp(pla, La, tl, "rhumb line lat2 vs Direct ALL"); }
        else { v.that(same_bits(la, sentinel(sent, 0)), "rhumb direct lat2 not requested but modified"); v.that(same_bits(pla, sentinel(sent, 0)), "rhumb line lat2 not requested but modified"); }
        if (mask & Rhumb::LONGITUDE) { cmp(lo, Lo, tlo, "rhumb direct lon2 vs ALL"); cmp(plo, Lo, tlo, "rhumb line lon2 vs Direct ALL"); }
        else { v.that(same_bits(lo, sentinel(sent, 1)), "rhumb direct lon2 not requested but modified"); v.that(same_bits(plo, sentinel(sent, 1)), "rhumb line lon2 not requested but modified"); }
        if (mask & Rhumb::AREA) { cmp(S2, S, tS, "rhumb direct S12 vs ALL"); cmp(pS, S, tS, "rhumb line S12 vs Direct ALL"); }
        else { v.that(same_bits(S2, sentinel(sent, 2)), "rhumb direct S12 not requested but modified"); v.that(same_bits(pS, sentinel(sent, 2)), "rhumb line S12 not requested but modified"); }
        if (!unroll) {
          double is = sentinel(sent, 0), ia = sentinel(sent, 1), iS = sentinel(sent, 2);
          rh.GenInverse(lat1, lon1, lat2, lon2, mask, is, ia, iS);
          if (mask & Rhumb::DISTANCE) cmp(is, Ia, 64 * eps * std::max(E.a, E.b) * 4, "rhumb inverse s12 vs ALL"); else v.that(same_bits(is, sentinel(sent, 0)), "rhumb inverse s12 not requested but modified");
          if (mask & Rhumb::AZIMUTH) cmp(ia, Io, tl, "rhumb inverse azi12 vs ALL"); else v.that(same_bits(ia, sentinel(sent, 1)), "rhumb inverse azi12 not requested but modified");
          if (mask & Rhumb::AREA) cmp(iS, IS, tS, "rhumb inverse S12 vs ALL"); else v.that(same_bits(iS, sentinel(sent, 2)), "rhumb inverse S12 not requested but modified");
        }
        if (v.failed()) return v;
      }
    }
  }
  v.tag(exact ? "rhumb-exact" : "rhumb-series"); v.nontrivial = s12 != 0;
  return v;
}

// ---------------------------------------------------------------------------------------------
// line capabilities: every caps subset (incl. DISTANCE_IN) x every outmask subset
template <class Line> void caps_body(Verdict& v, const Line& full, const std::function<Line(unsigned)>& mk, bool arc, double len, const ref::Ellipsoid& E, bool exact) {
  const unsigned CB[8] = {Geodesic::LATITUDE, Geodesic::LONGITUDE, Geodesic::AZIMUTH, Geodesic::DISTANCE, Geodesic::DISTANCE_IN,
                          Geodesic::REDUCEDLENGTH, Geodesic::GEODESICSCALE, Geodesic::AREA};
  double A[8]; double aret = full.GenPosition(arc, len, Geodesic::ALL, A[0], A[1], A[2], A[3], A[4], A[5], A[6], A[7]);
  Scale sc = scales(E, A[0], aret, exact);
  L tolv[8] = {sc.ang, sc.lon + 4e-16L * fabsl((L)A[1]), sc.ang, sc.len, sc.len, sc.M, sc.M, sc.S};
  for (unsigned c = 0; c < 256; ++c) {
    unsigned caps = 0; for (int b = 0; b < 8; ++b) if (c & (1u << b)) caps |= CB[b];
    Line l = mk(caps);
    unsigned have = l.Capabilities();
    v.that((have & (caps | Geodesic::LATITUDE | Geodesic::AZIMUTH | Geodesic::LONG_UNROLL)) == (caps | Geodesic::LATITUDE | Geodesic::AZIMUTH | Geodesic::LONG_UNROLL),
           "Capabilities() lacks a requested capability or LATITUDE|AZIMUTH|LONG_UNROLL");
    bool can_locate = arc || (have & (1u << 11)) != 0;   // OUT_MASK part of DISTANCE_IN
    for (unsigned m = 0; m < 128; m += (c % 7 == 0 ? 1 : 5)) {   // all masks for a subset of caps, strided otherwise
      unsigned mask = 0; for (int b = 0; b < 7; ++b) if (m & (1u << b)) mask |= OUTBITS[b];
      int sent = (m ^ c) & 1;
      double o[8]; for (int i = 0; i < 8; ++i) o[i] = sentinel(sent, i);
      double ret = l.GenPosition(arc, len, mask, o[0], o[1], o[2], o[3], o[4], o[5], o[6], o[7]);
      char nm[128];
      if (!can_locate) {
        v.that(std::isnan(ret), "distance-mode query on a line without DISTANCE_IN did not return NaN");
        for (int i = 0; i < 8; ++i) { std::snprintf(nm, sizeof nm, "output %d modified by a query that cannot locate the point (caps 0x%x)", i, caps); v.that(same_bits(o[i], sentinel(sent, i)), nm); }
      } else {
        v.le(fabsl((L)ret - (L)aret), sc.ang, "returned a12 depends on caps/mask [deg]");
        for (int i = 0; i < 8; ++i) {
          bool eff = (mask & have & DIRECT_OWNER[i] & 0x7F80u) != 0;
          if (eff) { std::snprintf(nm, sizeof nm, "line output %d (caps 0x%x mask 0x%x) vs full line", i, caps, mask); v.le(fabsl((L)o[i] - (L)A[i]), tolv[i], nm); }
          else { std::snprintf(nm, sizeof nm, "line output %d modified without request/capability (caps 0x%x mask 0x%x)", i, caps, mask); v.that(same_bits(o[i], sentinel(sent, i)), nm); }
        }
      }
      if (v.failed()) return;
    }
  }
}

Verdict check_caps(const J& r) {
  Verdict v; int solver; double a, f, lat1, lon1, azi1, len; bool arc;
  if (!get_dir(r, solver, a, f, lat1, lon1, azi1, arc, len)) { v.skip("outside documented domain"); return v; }
  ref::Ellipsoid E(a, f);
  if (solver == 1) {
    GeodesicExact g(a, f); GeodesicLineExact full = g.Line(lat1, lon1, azi1, GeodesicExact::ALL);
    caps_body<GeodesicLineExact>(v, full, [&](unsigned caps) { return g.Line(lat1, lon1, azi1, caps); }, arc, len, E, true);
    GeodesicLineExact un; double o[8]; for (int i = 0; i < 8; ++i) o[i] = sentinel(0, i);
    double ret = un.GenPosition(arc, len, GeodesicExact::ALL, o[0], o[1], o[2], o[3], o[4], o[5], o[6], o[7]);
    v.that(std::isnan(ret) && !un.Init(), "uninitialised GeodesicLineExact did not return NaN");
    for (int i = 0; i < 8; ++i) v.that(same_bits(o[i], sentinel(0, i)), "uninitialised GeodesicLineExact modified an output");
  } else {
    Geodesic g(a, f, solver == 2); GeodesicLine full = g.Line(lat1, lon1, azi1, Geodesic::ALL);
    caps_body<GeodesicLine>(v, full, [&](unsigned caps) { return g.Line(lat1, lon1, azi1, caps); }, arc, len, E, solver == 2);
    GeodesicLine un; double o[8]; for (int i = 0; i < 8; ++i) o[i] = sentinel(1, i);
    double ret = un.GenPosition(arc, len, Geodesic::ALL, o[0], o[1], o[2], o[3], o[4], o[5], o[6], o[7]);
    v.that(std::isnan(ret) && !un.Init(), "uninitialised GeodesicLine did not return NaN");
    for (int i = 0; i < 8; ++i) v.that(same_bits(o[i], sentinel(1, i)), "uninitialised GeodesicLine modified an output");
  }
  v.tag(solver_exact(solver) ? "exact" : "series"); v.tag(arc ? "arcmode" : "distmode"); v.nontrivial = len != 0;
  return v;
}

// ---------------------------------------------------------------------------------------------
template <class G, class Line> void pos_body(Verdict& v, const G& g, double lat1, double lon1, double azi1, bool arc, double len, const ref::Ellipsoid& E, L doc) {
  Line l = g.Line(lat1, lon1, azi1, G::ALL);
  double A[8], B[8], D[8];
  double a12 = l.GenPosition(arc, len, G::ALL, A[0], A[1], A[2], A[3], A[4], A[5], A[6], A[7]);
  // the same point addressed the other way: by the returned arc (if we used a distance) or the returned distance
  double other = arc ? A[3] : a12;
  double b12 = l.GenPosition(!arc, other, G::ALL, B[0], B[1], B[2], B[3], B[4], B[5], B[6], B[7]);
  double d12 = g.GenDirect(lat1, lon1, azi1, arc, len, G::ALL, D[0], D[1], D[2], D[3], D[4], D[5], D[6], D[7]);
  L circ = 1 + fabsl((L)a12) / 90;
  L tolp = 2 * doc * circ;
  L pa[3], pb[3], pd[3], da[3], db[3], dd[3];
  ref::to_cart(E, A[0], A[1], pa); ref::to_cart(E, B[0], B[1], pb); ref::to_cart(E, D[0], D[1], pd);
  ref::dir_vec(A[0], A[1], A[2], da); ref::dir_vec(B[0], B[1], B[2], db); ref::dir_vec(D[0], D[1], D[2], dd);
  // converting between arc and distance costs a Newton solve / series reversion: documented accuracy applies
  v.le(ref::dist3(pa, pb), tolp, "Position(s) vs ArcPosition(a) point [m]");
  v.le(ref::dist3(da, db) * E.a, 4 * tolp, "Position(s) vs ArcPosition(a) direction [m-equivalent]");
  v.le(fabsl((L)A[3] - (L)B[3]), tolp, "Position(s) vs ArcPosition(a) s12 [m]");
  v.le(fabsl((L)a12 - (L)b12), 2 * tolp / std::min(E.a, E.b) / ref::DEG_L + 1e-14L * fabsl((L)a12), "Position(s) vs ArcPosition(a) a12 [deg]");
  v.le(fabsl((L)A[4] - (L)B[4]), 2 * tolp, "Position(s) vs ArcPosition(a) m12 [m]");
  v.le(std::max(fabsl((L)A[5] - (L)B[5]), fabsl((L)A[6] - (L)B[6])), 4 * (1e-15L * circ + tolp / std::min(E.a, E.b)), "Position(s) vs ArcPosition(a) M12/M21");
  if (!arc) {
    // distance -> returned arc -> ArcPosition: every output of Position(s) is computed from the arc length it returns, so
    // addressing the point by that arc repeats the same computation; only the rounding of a12 to a double in degrees
    // (eps |a12| deg, i.e. eps |a12| DEG max(a,b) metres) and ordinary round-off separate the two (seen < 3e-9 m; S-C12-m7
    // left 1e-5 .. 1e-2 m between the reduced lengths for |f| >= 0.1)
    L tq = 32 * 2.3e-16L * std::max(E.a, E.b) * circ;
    v.le(ref::dist3(pa, pb), tq, "Position(s) vs ArcPosition(returned a12): point, round-off level [m]");
    v.le(fabsl((L)A[4] - (L)B[4]), 4 * tq, "Position(s) vs ArcPosition(returned a12): m12, round-off level [m]");
    v.le(std::max(fabsl((L)A[5] - (L)B[5]), fabsl((L)A[6] - (L)B[6])), 4 * tq / std::min(E.a, E.b), "Position(s) vs ArcPosition(returned a12): M12/M21, round-off level");
  }
  // line vs solver.Direct: the same computation, so round-off only
  L tr = 64 * 2.3e-16L * std::max(E.a, E.b) * circ;
  v.le(ref::dist3(pa, pd), tr, "line.Position vs solver.Direct point [m]");
  v.le(ref::dist3(da, dd) * E.a, 4 * tr, "line.Position vs solver.Direct direction [m-equivalent]");
  v.le(fabsl((L)A[3] - (L)D[3]), tr, "line.Position vs solver.Direct s12 [m]");
  v.le(fabsl((L)a12 - (L)d12), tr / std::min(E.a, E.b) / ref::DEG_L, "line.Position vs solver.Direct a12 [deg]");
  v.le(fabsl((L)A[4] - (L)D[4]), 2 * tr, "line.Position vs solver.Direct m12 [m]");
}

Verdict check_pos(const J& r) {
  Verdict v; int solver; double a, f, lat1, lon1, azi1, len; bool arc;
  if (!get_dir(r, solver, a, f, lat1, lon1, azi1, arc, len)) { v.skip("outside documented domain"); return v; }
  ref::Ellipsoid E(a, f);
  if (solver == 1) { GeodesicExact g(a, f); pos_body<GeodesicExact, GeodesicLineExact>(v, g, lat1, lon1, azi1, arc, len, E, doc_tol(1, a, f)); }
  else { Geodesic g(a, f, solver == 2); pos_body<Geodesic, GeodesicLine>(v, g, lat1, lon1, azi1, arc, len, E, doc_tol(solver, a, f)); }
  v.tag(solver_exact(solver) ? "exact" : "series"); v.tag(arc ? "arcmode" : "distmode"); v.nontrivial = len != 0;
  return v;
}

// ---------------------------------------------------------------------------------------------
template <class G, class Line> void third_body(Verdict& v, const G& g, double lat1, double lon1, double azi1, bool arc, double len, const ref::Ellipsoid& E, L doc) {
  L circ0 = arc ? 1 + fabsl((L)len) / 90 : 1 + fabsl((L)len) / (ref::PI_L / 2 * std::min(E.a, E.b));
  L tolp = 2 * doc * circ0;
  L tola = 2 * tolp / std::min(E.a, E.b) / ref::DEG_L + 1e-14L * circ0 * 90;
  // (1) DirectLine / ArcDirectLine
  {
    Line l = g.GenDirectLine(lat1, lon1, azi1, arc, len, G::ALL);
    double la, lo, az, D[8];
    g.GenDirect(lat1, lon1, azi1, arc, len, G::ALL, D[0], D[1], D[2], D[3], D[4], D[5], D[6], D[7]);
    if (arc) v.that(l.Arc() == len, "ArcDirectLine: Arc() is not the arc length given"); else v.that(l.Distance() == len, "DirectLine: Distance() is not the distance given");
    l.Position(l.Distance(), la, lo, az);
    L p[3], q[3]; ref::to_cart(E, la, lo, p); ref::to_cart(E, D[0], D[1], q);
    v.le(ref::dist3(p, q), tolp, "GenDirectLine: Position(Distance()) vs Direct end point [m]");
    double la2, lo2, az2; l.ArcPosition(l.Arc(), la2, lo2, az2);
    L p2[3]; ref::to_cart(E, la2, lo2, p2);
    v.le(ref::dist3(p2, q), tolp, "GenDirectLine: ArcPosition(Arc()) vs Direct end point [m]");
  }
  // (2) SetDistance / SetArc on a plain line, and on a line without DISTANCE capabilities
  {
    Line l = g.Line(lat1, lon1, azi1, G::ALL);
    double s = arc ? 12345.678 : len, aa = arc ? len : 12.5;
    l.SetDistance(s);
    v.that(l.Distance() == s, "SetDistance: Distance() differs");
    double la, lo, az, sx; double a1 = l.Position(s, la, lo, az);
    v.le(fabsl((L)l.Arc() - (L)a1), tola, "SetDistance: Arc() vs arc of Position(Distance()) [deg]");
    l.SetArc(aa);
    v.that(l.Arc() == aa, "SetArc: Arc() differs");
    l.ArcPosition(aa, la, lo, az, sx);
    v.le(fabsl((L)l.Distance() - (L)sx), tolp * (1 + fabsl((L)aa) / 90), "SetArc: Distance() vs distance of ArcPosition(Arc()) [m]");
    l.GenSetDistance(arc, len);
    v.that((arc ? l.Arc() : l.Distance()) == len, "GenSetDistance: stored value differs");
    Line nd = g.Line(lat1, lon1, azi1, G::LATITUDE | G::LONGITUDE);
    nd.SetArc(aa);
    v.that(nd.Arc() == aa && std::isnan(nd.Distance()), "SetArc on a line without DISTANCE: Distance() should be NaN");
    // a line that can take distances as input (DISTANCE_IN) but cannot return them (no DISTANCE): the third point set by
    // distance and then by arc.  SetArc documents that the distance is only set with the DISTANCE capability, so afterwards
    // Distance() is NaN - or, if a number, it must describe the same point as Arc() (never the previous third point)
    for (int how = 0; how < 2; ++how) {
      Line di = how ? g.GenDirectLine(lat1, lon1, azi1, false, s, G::DISTANCE_IN | G::LONGITUDE | G::LATITUDE)
                    : g.Line(lat1, lon1, azi1, G::DISTANCE_IN | G::LONGITUDE | G::LATITUDE);
      if (!how) di.SetDistance(s);
      v.that(di.Distance() == s, "third point by distance on a DISTANCE_IN line: Distance() differs");
      di.SetArc(aa);
      v.that(di.Arc() == aa, "SetArc after SetDistance (DISTANCE_IN line): Arc() differs");
      double dd = di.Distance();
      if (!std::isnan(dd)) {
        double la1, lo1, la2, lo2; di.Position(dd, la1, lo1); di.ArcPosition(aa, la2, lo2);
        L p[3], q[3]; ref::to_cart(E, la1, lo1, p); ref::to_cart(E, la2, lo2, q);
        v.le(ref::dist3(p, q), tolp * (1 + fabsl((L)aa) / 90), "SetArc after SetDistance on a line without DISTANCE: Distance() and Arc() describe different points [m]");
      }
    }
  }
}

Verdict check_third(const J& r) {
  Verdict v; int solver; double a, f, lat1, lon1, azi1, len; bool arc;
  if (!get_dir(r, solver, a, f, lat1, lon1, azi1, arc, len)) { v.skip("outside documented domain"); return v; }
  ref::Ellipsoid E(a, f);
  if (solver == 1) { GeodesicExact g(a, f); third_body<GeodesicExact, GeodesicLineExact>(v, g, lat1, lon1, azi1, arc, len, E, doc_tol(1, a, f)); }
  else { Geodesic g(a, f, solver == 2); third_body<Geodesic, GeodesicLine>(v, g, lat1, lon1, azi1, arc, len, E, doc_tol(solver, a, f)); }
  v.tag(solver_exact(solver) ? "exact" : "series"); v.tag(arc ? "arcmode" : "distmode"); v.nontrivial = len != 0;
  return v;
}

vf::Reg r1({"C12.mask.direct", "generated direct problems x all 128 output-bit subsets x LONG_UNROLL x 2 sentinel patterns (mask dimension exhaustive per geodesic); non-trivial: length != 0", 0.25,
            [] { return rc::gen::exec([] { return gen_geod(false); }); }, check_mask_direct, nullptr});
vf::Reg r2({"C12.mask.inverse", "generated point pairs (singular classes over-weighted) x all 128 output-bit subsets x 2 sentinel patterns; non-trivial: s12 > 0", 0.2,
            [] { return rc::gen::exec([] { return gen_geod(true); }); }, check_mask_inverse, nullptr});
vf::Reg r3({"C12.mask.rhumb", "generated rhumb direct/inverse/line problems x all 32 output-bit subsets x LONG_UNROLL x 2 sentinels, series and exact; non-trivial: s12 != 0", 0.15,
            [] { return rc::gen::exec([] { J r = J::obj(); bool ex = vf::g::coin(); gg::Ell e = gg::ellipsoid(gg::SERIES_FULL); if (!ex && std::fabs(e.f) > 0.01) e.f *= 0.5;
                                           r["exact"] = J::integer(ex); r["a"] = J::num(e.a); r["f"] = J::num(e.f);
                                           r["lat1"] = J::num(gg::latitude()); r["lon1"] = J::num(gg::angle());
                                           r["azi1"] = J::num(vf::g::coin(1, 3) ? vf::g::sgn() * (90 + vf::g::sgn() * vf::g::loguni(1e-9, 30.0)) : gg::angle());   // a third nearly east-west: large longitude sweeps
                                           r["len"] = J::num(gg::distance(e.a, 2));
                                           r["lat2"] = J::num(gg::latitude()); r["lon2"] = J::num(gg::angle()); return r; }); }, check_mask_rhumb, nullptr});
vf::Reg r4({"C12.caps", "generated lines x all 256 capability subsets x output masks (all 128 for every 7th subset, every 5th otherwise); uninitialised lines; non-trivial: length != 0", 0.1,
            [] { return rc::gen::exec([] { return gen_geod(false); }); }, check_caps, nullptr});
vf::Reg r5({"C12.pos", "generated lines: Position(s) vs ArcPosition(returned arc) and vice versa, line vs solver.Direct; non-trivial: length != 0", 0.15,
            [] { return rc::gen::exec([] { return gen_geod(false); }); }, check_pos, nullptr});
vf::Reg r6({"C12.third", "generated lines: DirectLine/ArcDirectLine, SetDistance, SetArc, GenSetDistance, lines without DISTANCE; non-trivial: length != 0", 0.15,
            [] { return rc::gen::exec([] { return gen_geod(false); }); }, check_third, nullptr});

}  // namespace

VF_MAIN
