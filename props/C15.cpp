// C15 — auxiliary latitudes, ellipsoid measures, elliptic functions (DESIGN 3/C15)
//
// Oracles: ref/aux_ref (R-MP: closed forms + defining integrals by quadrature, 50 digits),
//          ref/ell_ref (R-ELL: Boost.Math at 50 digits + defining integrals by quadrature).
// Sub-checks
//   C15.a   Convert / ToAuxiliary / FromAuxiliary (AuxAngle entry), all 36 pairs x {series, exact}: relative
//           error of the TANGENT in ulps against R-MP; quadrant kept
//   C15.a2  degree-valued entry points (AuxLatitude::Convert(real) and the Ellipsoid::*Latitude wrappers)
//   C15.b   Convert(b->a, Convert(a->b, zeta)) = zeta
//   C15.c   series vs exact for |f| <= 1/150
//   C15.d   oddness (bit-exact), monotonicity, fixed points 0 and +-90, quadrant kept
//   C15.e   derivative output of ToAuxiliary; RectifyingRadius, AuthalicRadiusSquared (series & exact)
//   C15.f   every Ellipsoid inspector vs definition; flattening/eccentricity conversions; cross-class
//           consistency Ellipsoid::Area = Geodesic(Exact)::EllipsoidArea = Rhumb::EllipsoidArea, QuarterMeridian
//           vs the meridional Geodesic(Exact)::Inverse
//   C15.g1  Carlson RF RC RD RG RJ vs Boost (50 digits); symmetry, homogeneity, degenerate/equal arguments
//   C15.g2  EllipticFunction complete + incomplete integrals (both argument forms), delta*, Ed, Einv, Reset
//           special cases, the complementary-parameter constructor
//   C15.g3  am, sncndn vs the inverse relation am(F(phi)) = phi (all k2 <= 1) and vs Boost jacobi (0 <= k2 <= 1)
//   C15.ref self-validation of the two reference models (Boost vs quadrature vs closed forms)
//
// MUTATION TABLE (scratch copy /tmp/mutC15, VERIF_REPO=..., quick tier) — see the end of this comment block,
// filled in after the sensitivity runs.
//   (run with the finding ids of this file enabled, so that the listed findings do not mask the mutation)
//   id   mutation (file: change)                                                                       caught by
//   M1   AuxLatitude.cpp fillcoeff C[beta,chi] low order: -2/3 -> -2/5                                  C15.a a2 b c
//   M2   fillcoeff C[beta,chi] n^6 coefficient of sin(2 zeta): -3118/4725 -> +3118/4725                 C15.a a2
//   M2b  fillcoeff C[beta,chi] highest harmonic/order: 797222/155925 -> -797222/155925                  C15.c
//   M3   ptrs[] (order 6) one offset 417 -> 418                                                         C15.a
//   M4   FromAuxiliary Newton bracket: bmin/bmax swapped                                                C15.a
//   M4b  FromAuxiliary final Newton step: / diff -> * diff                                              C15.a
//   M5   Conformal cancellation branch: sig < tphi/2 -> sig < tphi*2 (Dg branch never taken)            C15.a
//   M5b  Conformal Dg: (1 + e)/2 -> (1 - e)/2                                                           C15.a
//   M6   Authalic Dqm: 1 + |sin phi| -> 1 + sin phi (southern hemisphere)                               C15.d (oddness)
//   M6b  Dq limit 2/(1-e2)^2 -> 2/(1-e2)                                                                C15.a
//   M6c  AuthalicRadiusSquared series coefficient 4/15 -> 4/17                                          C15.e
//   M6d  Rectifying: RD term /3 -> /2                                                                   C15.a
//   M7   Carlson tolRF exponent 1/8 -> 1/12 (loop exits early)                                          C15.g1
//   M7b  RD loop exit Q >= mul |An| -> Q >= 16 mul |An|                                                 C15.g1
//   M8   sncndn tolJAC sqrt -> fourth root                                                              C15.g3
//   M8b  am tolJAC eps^0.75 -> eps^0.25                                                                 C15.g3
//   M9   Reset k2 = 0: D = K/2 -> D = K                                                                 C15.g2
//   M9b  Reset alpha2 = 0, k2 = 1: H = 1 -> 2                                                           C15.g2
//   M9c  Reset alpha2 = 0: G = E -> G = K                                                               C15.g2
//   M10  Ellipsoid::NormalCurvatureRadius: sin/cos of the azimuth swapped                               C15.f
//   M11  Einv first-order start: -eps sin(2 phi)/2 -> +eps sin(2 phi)/2                                 C15.g2
//   M12  Clenshaw x = 2 (c - s)(c + s) -> 2 (c - s)(c - s)                                              C15.c
//   M13  Convert(real): whole turns round -> floor                                                      C15.a2
//   All 24 caught within the quick tier (3 .. 190 s).  A high-order coefficient must be changed by >~ 10 % of the
//   highest-order term (1e-14 .. 1e-13 at |f| = 1/150) to exceed the series tolerance (8 + 1.5 TRUNC ulp); smaller relative
//   perturbations of n^6 coefficients are below round-off on every admissible ellipsoid and cannot be seen by any check.
#include "fw/harness.hpp"
#include "gen/geo.hpp"
#include "ref/aux_ref.hpp"
#include "ref/ell_ref.hpp"
#include "ref/tol.hpp"

#include <GeographicLib/AuxLatitude.hpp>
#include <GeographicLib/Ellipsoid.hpp>
#include <GeographicLib/EllipticFunction.hpp>
#include <GeographicLib/Geodesic.hpp>
#include <GeographicLib/GeodesicExact.hpp>
#include <GeographicLib/Rhumb.hpp>

#include <cfloat>

using namespace GeographicLib;
using vf::J; using vf::Verdict;
typedef long double L;

namespace {

// v.le with the error clamped to a finite value (an infinite err/tol ratio does not survive the JSON result file)
inline void vle(Verdict& v, long double err, long double tol, const char* what) {
  if (!(tol > 0)) tol = 1e-300L;
  if (!(err / tol < 1e30L)) err = 1e30L * tol;
  v.le(err, tol, what);
}
// known_on() of the harness; C15_ASSUME_KNOWN=1 in the environment switches all of this file's finding ids on
// (calibration aid only: lets the worst-ratio list show what lies behind the findings before they are listed)
inline bool kn(const char* id) {
  static const bool all = std::getenv("C15_ASSUME_KNOWN") != nullptr;
  return all || vf::known_on(id);
}
const double EPS = DBL_EPSILON;              // 2^-52: "1 ulp" of a relative error
const double FSER = 1 / 150.0;               // documented limit of the series method

// ------------------------------------------------------------------------------------------------ ellipsoids
struct EllRec { bool axes; double a, f, b; };      // axes: constructed with AuxLatitude::axes(a, b)
void put_ell(J& r, const EllRec& e) {
  r["axes"] = J::integer(e.axes); r["a"] = J::num(e.a);
  if (e.axes) r["b"] = J::num(e.b); else r["f"] = J::num(e.f);
}
bool get_ell(const J& r, EllRec& e) {
  e.axes = r.geti("axes") != 0; e.a = r.getd("a");
  if (e.axes) { if (!r.has("b")) return false; e.b = r.getd("b"); e.f = (e.a - e.b) / e.a; }
  else { if (!r.has("f")) return false; e.f = r.getd("f"); e.b = e.a * (1 - e.f); }
  return true;
}
// b/a of the ellipsoid the library is given (exactly: 1 - f, resp. b/a)
double ba_of(const EllRec& e) { return e.axes ? e.b / e.a : 1 - e.f; }
bool ell_domain(const EllRec& e) {
  if (!(e.a > 0) || !std::isfinite(e.a) || !std::isfinite(e.f) || !std::isfinite(e.b) || !(e.b > 0)) return false;
  if (e.a < 1e-3 || e.a > 1e12) return false;
  double ba = ba_of(e);
  return ba >= 0.01 && ba <= 100;            // Ellipsoid.hpp: valid for 1/100 < b/a < 100
}
bool series_domain(const EllRec& e) { return std::fabs(e.f) <= FSER; }
AuxLatitude make_aux(const EllRec& e) { return e.axes ? AuxLatitude::axes(e.a, e.b) : AuxLatitude(e.a, e.f); }
ref::aux::Ell make_ref(const EllRec& e) { return e.axes ? ref::aux::Ell::from_axes(e.a, e.b) : ref::aux::Ell(e.a, e.f); }
void tag_ell(Verdict& v, const EllRec& e) {
  double ba = ba_of(e), af = std::fabs(e.f);
  v.tag(ba < 0.1 ? "ba[.01,.1)" : ba < 0.5 ? "ba[.1,.5)" : ba < 1 ? "ba[.5,1)" : ba == 1 ? "ba=1" : ba <= 2 ? "ba(1,2]" : ba <= 10 ? "ba(2,10]" : "ba(10,100]");
  v.tag(af == 0 ? "f=0" : af < 1e-6 ? "|f|<1e-6" : af < 0.9 * FSER ? "|f|<1/150" : af <= FSER ? "|f|~1/150" : af <= 0.2 ? "|f|<=0.2" : "|f|>0.2");
  if (e.axes) v.tag("axes-ctor");
}

EllRec gen_ell_exact() {
  EllRec e; e.axes = false;
  gg::Ell g = gg::ellipsoid(gg::EXACT_RANGE);
  e.a = g.a; e.f = g.f;
  if (1 - e.f < 0.01) e.f = 0.99;
  if (1 - e.f > 100) e.f = -99;
  e.b = e.a * (1 - e.f);
  if (vf::g::coin(1, 8)) { e.axes = true; e.b = e.a * (1 - e.f); if (!(e.b / e.a >= 0.01)) e.b = 0.01 * e.a; if (!(e.b / e.a <= 100)) e.b = 100 * e.a; e.f = (e.a - e.b) / e.a; }
  return e;
}
EllRec gen_ell_series() {
  EllRec e; e.axes = false;
  switch (vf::g::wpick({20, 35, 20, 15, 10})) {
    case 0: { gg::Ell g = gg::named_ellipsoid(); e.a = g.a; e.f = g.f; break; }
    case 1: e.a = gg::A_WGS84; e.f = vf::g::sgn() * FSER; break;                    // the documented limit: highest-order terms ~1e-13
    case 2: e.a = vf::g::coin(3, 4) ? gg::A_WGS84 : vf::g::loguni(1.0, 1e9); e.f = vf::g::sgn() * vf::g::loguni(1e-12, FSER); break;
    case 3: e.a = gg::A_WGS84; e.f = vf::g::uni(-FSER, FSER); break;
    default: e.a = gg::A_WGS84; e.f = vf::g::sgn() * vf::g::uni(0.8 * FSER, FSER); break;
  }
  if (e.f > FSER) e.f = FSER;
  if (e.f < -FSER) e.f = -FSER;
  e.b = e.a * (1 - e.f);
  if (vf::g::coin(1, 10)) { e.axes = true; e.f = (e.a - e.b) / e.a; if (std::fabs(e.f) > FSER) { e.axes = false; e.f = e.f > 0 ? FSER : -FSER; e.b = e.a * (1 - e.f); } }
  return e;
}

// ------------------------------------------------------------------------------------------------ angles
// an AuxAngle (y, x): tangent log-uniform over [1e-300, 1e300] / uniform angle / near cardinal, all four quadrants
void gen_yx(double& y, double& x) {
  double t;
  switch (vf::g::wpick({35, 35, 10, 10, 10})) {
    case 0: t = vf::g::loguni(1e-300, 1e300); break;
    case 1: t = std::tan(vf::g::uni(0, M_PI / 2)); break;
    case 2: t = vf::g::ulps(vf::g::oneof<double>({1.0, 0.5, 2.0, 1e-8, 1e8}), (int)vf::g::irange(-3, 3)); break;
    case 3: t = vf::g::loguni(1e-20, 1e20); break;
    default: t = vf::g::coin() ? vf::g::loguni(1e140, 1e300) : vf::g::loguni(1e-300, 1e-140); break;
  }
  double s = vf::g::coin(7, 10) ? 1.0 : vf::g::loguni(1e-3, 1e3);
  if (t >= 1) { y = s; x = s / t; } else { y = s * t; x = s; }
  if (vf::g::coin(1, 3)) { y = t; x = 1; }       // the one-argument constructor AuxAngle(tan)
  if (!(x != 0) || !std::isfinite(x)) x = 1e-300;
  if (!(y != 0) || !std::isfinite(y)) y = 1e-300;
  y *= vf::g::sgn(); x *= vf::g::coin(3, 4) ? 1.0 : -1.0;
}
void tag_tan(Verdict& v, L t) {
  L at = fabsl(t);
  double l = (double)log10l(at);
  v.tag(l < -140 ? "tan<1e-140" : l < -20 ? "tan<1e-20" : l < -3 ? "tan<1e-3" : l < 0 ? "tan<1" : l < 3 ? "tan<1e3" : l < 20 ? "tan<1e20" : l < 140 ? "tan<1e140" : "tan>=1e140");
}
const char* AUXN[6] = {"phi", "beta", "theta", "mu", "chi", "xi"};
std::string pair_tag(int from, int to) { return std::string(AUXN[from]) + ">" + AUXN[to]; }

// relative spacing of a double (1 ulp relative), also for subnormals
double relspacing(double v) {
  double a = std::fabs(v);
  if (a >= DBL_MIN) return EPS;
  if (a == 0) return INFINITY;
  return DBL_TRUE_MIN / a;
}

// ------------------------------------------------------------------------------------------------ tolerance laws
// Exact method, ulps of the tangent for phi <-> k.  Calibrated on the unchanged tree (scan over random
// ellipsoids, 5 seeds of the quick tier and one thorough run), frozen at >= 4x the maximum seen.
// The growth terms are properties of the exact formulas at extreme eccentricity, not round-off noise:
//  * oblate, go = (a/b)^2: the constructor forms e'^2 = e2/(1 - e2) with the rounded e2 = f(2-f); 1 - e2
//    cancels, so e'^2, e' carry a relative error ~eps (a/b)^2 (seen: 0.2..0.5 eps (a/b)^2 in mu, chi, xi);
//  * prolate, gp = b/a: tan(chi) = sinh(psi) with |psi| ~ (b/a) atan(b/a) large: eps |psi| relative (seen 2.2 eps b/a);
//    the authalic q and Dq cancel for e2 << -1 (seen 0.55 eps (b/a)^2).
double tol_exact_kind(int k, double ba) {
  double go = ba < 1 ? 1 / (ba * ba) : 0, gp = ba > 1 ? ba : 0;
  switch (k) {
    case 0: case 1: case 2: return 4;
    case 3: return 16 + 2.5 * go;
    case 4: return 16 + 2.5 * go + 10 * gp;
    default: return 16 + 1.2 * go + 3 * gp * gp;
  }
}
double tol_exact(int from, int to, double ba) {
  if (from == to) return 0.5;
  if (from < 3 && to < 3) return 4;           // 1-f, its square, one multiplication or division: <= 2 ulp by construction
  return tol_exact_kind(from, ba) + tol_exact_kind(to, ba);
}
// Series method ("full accuracy for |f| <= 1/150"): round-off floor (seen <= 1.6 ulp) plus the truncation
// error of the 6th-order series, which grows like f^7; TRUNC[from][to] = maximum seen at |f| = 1/150 (ulps).
const double TRUNC[6][6] = {
    //  phi  beta theta  mu   chi   xi
    {0.0, 0.5, 3.0, 0.5, 1.0, 0.5},    // phi
    {0.5, 0.0, 0.5, 0.5, 0.5, 0.5},    // beta
    {2.5, 0.5, 0.0, 0.5, 0.5, 0.5},    // theta
    {0.8, 0.5, 0.5, 0.0, 0.5, 0.5},    // mu
    {9.0, 2.0, 1.2, 0.5, 0.0, 1.0},    // chi
    {0.6, 0.5, 0.5, 0.5, 0.5, 0.0},    // xi
};
double tol_series(int from, int to, double f) {
  if (from == to) return 0.5;
  double r = std::fabs(f) / FSER;
  return 8 + 1.5 * TRUNC[from][to] * std::pow(r, 7);
}

// ------------------------------------------------------------------------------------------------ C15.a
// library conversion through one of the entry points
AuxAngle lib_convert(const AuxLatitude& aux, int from, int to, int meth, const AuxAngle& z) {
  if (meth == 2) {
    if (from == AuxLatitude::PHI) return aux.ToAuxiliary(to, z);
    if (to == AuxLatitude::PHI) return aux.FromAuxiliary(from, z);
    return aux.Convert(from, to, z, true);
  }
  return aux.Convert(from, to, z, meth == 1);
}
bool pair_ok(long long from, long long to, long long meth) { return from >= 0 && from < 6 && to >= 0 && to < 6 && meth >= 0 && meth <= 2; }

// known low-severity finding: AuxLatitude::Dq (authalic) works with subnormal intermediates (d = 1 - sin(phi),
// e*d) for 1e150 < |tan phi| < 1.4e154 and loses up to ~1/e ulps there
bool authalic_window(int from, int to, int meth, L tauphi) {
  return meth != 0 && (from == 5 || to == 5) && tauphi > 1e150L && tauphi < 1.4e154L;
}

// known low-severity finding: FromAuxiliary(CONFORMAL, chi) on a prolate ellipsoid evaluates Conformal() at its first
// guess tan(chi)/(1-f)^2, which overflows when tan(chi)^2 / (tan(phi) (1-f)^2) exceeds the double range although both
// tan(chi) and the answer tan(phi) are representable: the result is NaN
bool fromchi_overflow(int from, int meth, double f, L tin, L tauphi) {
  if (meth == 0 || from != 4 || !(f < 0) || !(tauphi > 0)) return false;
  L fm1 = 1 - (L)f;
  return tin / (fm1 * fm1) * (tin / tauphi) > 1e305L;
}

// compare a library AuxAngle with a reference |tan|; returns the error in ulps via err, false if the values are at the
// edge of the double range (then only finiteness/sign is asserted by the caller)
bool tan_err_ulps(const AuxAngle& o, L ref, double& err, double& gran) {
  double ay = std::fabs(o.y()), ax = std::fabs(o.x());
  if (!(ref > 1e-290L && ref < 1e290L)) return false;
  if (!(ay > 0) || !(ax > 0) || !std::isfinite(ay) || !std::isfinite(ax)) { err = INFINITY; gran = 1; return true; }
  L tl = (L)ay / (L)ax;
  err = (double)(fabsl(tl / ref - 1) / EPS);
  gran = std::max(relspacing(o.y()), relspacing(o.x())) / EPS;     // 1 unless a component is subnormal
  return true;
}

J gen_conv(bool want_series_only, bool exact_only) {
  J r = J::obj();
  int meth = exact_only ? (int)vf::g::irange(1, 2) : want_series_only ? 0 : vf::g::wpick({40, 40, 20});
  EllRec e = meth == 0 ? gen_ell_series() : (vf::g::coin(1, 3) ? gen_ell_series() : gen_ell_exact());
  put_ell(r, e);
  int from = (int)vf::g::irange(0, 5), to = (int)vf::g::irange(0, 5);
  if (meth == 2 && from != 0 && to != 0) { if (vf::g::coin()) from = 0; else to = 0; }
  r["from"] = J::integer(from); r["to"] = J::integer(to); r["meth"] = J::integer(meth);
  double y, x; gen_yx(y, x);
  r["y"] = J::num(y); r["x"] = J::num(x);
  return r;
}

Verdict check_a(const J& r) {
  Verdict v; EllRec e;
  if (!get_ell(r, e) || !ell_domain(e)) { v.skip("ellipsoid outside documented domain"); return v; }
  long long from = r.geti("from"), to = r.geti("to"), meth = r.geti("meth");
  double y = r.getd("y"), x = r.getd("x");
  if (!pair_ok(from, to, meth)) { v.skip("bad pair"); return v; }
  if (meth == 0 && !series_domain(e)) { v.skip("series outside |f| <= 1/150"); return v; }
  if (!std::isfinite(y) || !std::isfinite(x) || y == 0 || x == 0) { v.skip("fixed point or non-finite (C15.d)"); return v; }
  if (std::fabs(y) > DBL_MAX / 4 && std::fabs(x) > DBL_MAX / 4) { v.skip("both components huge"); return v; }
  if (std::fabs(y) < DBL_MIN || std::fabs(x) < DBL_MIN) { v.skip("subnormal input component"); return v; }
  AuxLatitude aux = make_aux(e);
  AuxAngle o = lib_convert(aux, (int)from, (int)to, (int)meth, AuxAngle(y, x));
  tag_ell(v, e); v.tag(meth == 0 ? "series" : meth == 1 ? "exact" : "to/from-auxiliary"); v.tag(pair_tag((int)from, (int)to));
  v.nontrivial = from != to;
  // quadrant kept
  v.that(std::signbit(o.y()) == std::signbit(y) && std::signbit(o.x()) == std::signbit(x), "quadrant not preserved");
  if (v.failed()) return v;
  ref::aux::Ell E = make_ref(e);
  if (!E.ok()) { v.skip("reference ellipsoid not converged"); return v; }
  L ref; ref::aux::ConvInfo ci;
  if (!E.conv((int)from, (int)to, y, x, ref, nullptr, &ci)) { v.skip("reference not converged"); return v; }
  tag_tan(v, (L)y / (L)x);
  double err, gran;
  if (!tan_err_ulps(o, ref, err, gran)) {
    v.tag("range-edge");
    v.that(!std::isnan(o.y()) && !std::isnan(o.x()), "NaN result at the edge of the double range");
    return v;
  }
  double ba = ba_of(e);
  double tol = (meth == 0 ? tol_series((int)from, (int)to, e.f) : tol_exact((int)from, (int)to, ba)) * gran;
  if (gran > 1) v.tag("subnormal-output");
  bool win = authalic_window((int)from, (int)to, (int)meth, fabsl(ci.tau));
  if (win) v.tag("authalic-subnormal-window");
  if (fromchi_overflow((int)from, (int)meth, e.f, fabsl((L)y / (L)x), fabsl(ci.tau))) {
    v.tag("fromchi-overflow-regime");
    if (!(err <= tol) && kn("C15-fromaux-chi-overflow")) { v.known("C15-fromaux-chi-overflow", "FromAuxiliary(CONFORMAL) returns NaN: first Newton iterate overflows on a prolate ellipsoid"); return v; }
  }
  if (win && !(err <= tol)) {
    if (kn("C15-authalic-subnormal")) { v.known("C15-authalic-subnormal", "authalic conversion loses accuracy for 1e150 < |tan phi| < 1.4e154 (subnormal 1 - sin phi)"); return v; }
  }
  if (win && err <= tol) return v;        // inside the window: pass, but keep it out of the worst-ratio statistics
  vle(v, err, tol, meth == 0 ? "series: relative error of tan [ulp]" : meth == 1 ? "exact: relative error of tan [ulp]" : "To/FromAuxiliary: relative error of tan [ulp]");
  return v;
}

// ------------------------------------------------------------------------------------------------ C15.a2 degrees
double gen_lat_deg() {
  switch (vf::g::wpick({60, 15, 15, 10})) {
    case 0: return gg::latitude();
    case 1: return vf::g::uni(-180, 180);
    case 2: return gg::latitude() + 360.0 * (double)vf::g::irange(-3, 3);
    default: return vf::g::sgn() * vf::g::ulps(vf::g::oneof<double>({45, 90, 135, 180, 89.999999999, 1e-10}), (int)vf::g::irange(-2, 2));
  }
}
J gen_a2() {
  J r = J::obj();
  bool exact = vf::g::coin();
  EllRec e = exact ? (vf::g::coin(1, 3) ? gen_ell_series() : gen_ell_exact()) : gen_ell_series();
  e.axes = false; e.b = e.a * (1 - e.f);
  put_ell(r, e);
  r["from"] = J::integer(vf::g::irange(0, 5)); r["to"] = J::integer(vf::g::irange(0, 5)); r["exact"] = J::integer(exact);
  r["zeta"] = J::num(gen_lat_deg());
  r["wrap"] = J::integer(vf::g::coin(1, 3));     // use the Ellipsoid wrapper when one exists for the pair
  return r;
}
// Ellipsoid wrapper for (from, to), if any: all of them convert between PHI and one other latitude, exact method
bool ellipsoid_wrapper(const Ellipsoid& el, int from, int to, double z, double& out) {
  if (from == 0) switch (to) {
    case 1: out = el.ParametricLatitude(z); return true; case 2: out = el.GeocentricLatitude(z); return true;
    case 3: out = el.RectifyingLatitude(z); return true; case 4: out = el.ConformalLatitude(z); return true;
    case 5: out = el.AuthalicLatitude(z); return true; }
  if (to == 0) switch (from) {
    case 1: out = el.InverseParametricLatitude(z); return true; case 2: out = el.InverseGeocentricLatitude(z); return true;
    case 3: out = el.InverseRectifyingLatitude(z); return true; case 4: out = el.InverseConformalLatitude(z); return true;
    case 5: out = el.InverseAuthalicLatitude(z); return true; }
  return false;
}
Verdict check_a2(const J& r) {
  Verdict v; EllRec e;
  if (!get_ell(r, e) || !ell_domain(e) || e.axes) { v.skip("ellipsoid outside documented domain"); return v; }
  long long from = r.geti("from"), to = r.geti("to"); bool exact = r.geti("exact") != 0, wrap = r.geti("wrap") != 0;
  double z = r.getd("zeta");
  if (!pair_ok(from, to, 0)) { v.skip("bad pair"); return v; }
  if (!exact && !series_domain(e)) { v.skip("series outside |f| <= 1/150"); return v; }
  if (!std::isfinite(z) || std::fabs(z) > 1e6) { v.skip("angle beyond generated range"); return v; }
  double out; bool wrapped = false;
  if (wrap && exact && std::fabs(z) <= 90) {
    Ellipsoid el(e.a, e.f);
    wrapped = ellipsoid_wrapper(el, (int)from, (int)to, z, out);
  }
  if (!wrapped) { AuxLatitude aux = make_aux(e); out = aux.Convert((int)from, (int)to, z, exact); }
  tag_ell(v, e); v.tag(exact ? "exact" : "series"); v.tag(wrapped ? "Ellipsoid-wrapper" : "AuxLatitude::Convert(deg)"); v.tag(pair_tag((int)from, (int)to));
  v.tag(std::fabs(z) <= 90 ? "|zeta|<=90" : std::fabs(z) <= 180 ? "|zeta|<=180" : "whole-turns");
  v.nontrivial = from != to && std::remainder(z, 90.0) != 0;
  ref::aux::Ell E = make_ref(e);
  L ref;
  if (!E.ok() || !E.conv_deg((int)from, (int)to, z, ref)) { v.skip("reference not converged"); return v; }
  // tangent law converted to degrees: d eta = sin(eta) cos(eta) d(ln tan), plus 4 ulp of the angle for the
  // degree <-> (sin, cos) conversions at both ends and the final rounding (DESIGN C15.a)
  double ba = ba_of(e);
  double n = exact ? tol_exact((int)from, (int)to, ba) : tol_series((int)from, (int)to, e.f);
  L er = ref * (M_PI / 180);
  // (angles below 1e-306 degrees become subnormal when converted to radians: absolute floor 1e-315 degrees = 1e-320 times
  //  the largest ratio tan(eta)/tan(zeta) of an admissible ellipsoid, seen 4e-320)
  L tol = (n + 2) * EPS * fabsl(sinl(2 * er)) / 2 * (180 / M_PI) + 4 * EPS * std::max<L>(fabsl(ref), fabsl((L)z)) + 1e-315L;
  // the input rounding sincosd(zeta): relative error of tan ~ 1 ulp, included in n + 2
  vle(v, fabsl((L)out - ref), tol, exact ? "exact: degree-valued conversion [deg]" : "series: degree-valued conversion [deg]");
  if (std::fabs(z) <= 90) v.that(std::fabs(out) <= 90, "result outside [-90, 90] for an input inside");
  return v;
}

// ------------------------------------------------------------------------------------------------ C15.b round trip
Verdict check_b(const J& r) {
  Verdict v; EllRec e;
  if (!get_ell(r, e) || !ell_domain(e)) { v.skip("ellipsoid outside documented domain"); return v; }
  long long from = r.geti("from"), to = r.geti("to"), meth = r.geti("meth");
  double y = r.getd("y"), x = r.getd("x");
  if (!pair_ok(from, to, meth)) { v.skip("bad pair"); return v; }
  if (meth == 0 && !series_domain(e)) { v.skip("series outside |f| <= 1/150"); return v; }
  if (!std::isfinite(y) || !std::isfinite(x) || y == 0 || x == 0) { v.skip("fixed point or non-finite (C15.d)"); return v; }
  if (std::fabs(y) < DBL_MIN || std::fabs(x) < DBL_MIN || (std::fabs(y) > DBL_MAX / 4 && std::fabs(x) > DBL_MAX / 4)) { v.skip("input at range edge"); return v; }
  AuxLatitude aux = make_aux(e);
  AuxAngle z(y, x);
  AuxAngle m = lib_convert(aux, (int)from, (int)to, (int)meth, z);
  AuxAngle b = lib_convert(aux, (int)to, (int)from, (int)meth, m);
  tag_ell(v, e); v.tag(meth == 0 ? "series" : "exact"); v.tag(pair_tag((int)from, (int)to));
  v.nontrivial = from != to;
  L tin = fabsl((L)y / (L)x), tm = fabsl((L)m.y() / (L)m.x());
  tag_tan(v, tin);
  if (std::isnan(m.y()) || std::isnan(m.x()) || std::isnan(b.y()) || std::isnan(b.x())) {
    // a leg that inverts the conformal latitude on a prolate ellipsoid with a huge tangent: NaN from FromAuxiliary (see C15.a)
    if (meth != 0 && (from == 4 || to == 4) && e.f < 0 && std::max(tin, std::isnan((double)tm) ? (L)0 : tm) > 1e200L) {
      v.tag("fromchi-overflow-regime");
      if (kn("C15-fromaux-chi-overflow")) { v.known("C15-fromaux-chi-overflow", "round trip leg FromAuxiliary(CONFORMAL) returns NaN (first Newton iterate overflows)"); return v; }
    }
    v.that(false, "NaN in a round trip of finite tangents");
    return v;
  }
  if (!(tm > 1e-290L && tm < 1e290L) || !(tin > 1e-290L && tin < 1e290L)) { v.tag("range-edge"); return v; }
  v.that(std::signbit(b.y()) == std::signbit(y) && std::signbit(b.x()) == std::signbit(x), "quadrant not preserved by the round trip");
  double err, gran;
  tan_err_ulps(b, tin, err, gran);
  double ba = ba_of(e);
  // both legs obey the laws of C15.a; the error of the first leg is carried back through the inverse map, whose
  // logarithmic derivative is O(1) (between the end ratios of the two tangents); factor 2 covers it
  double tol = meth == 0 ? tol_series((int)from, (int)to, e.f) + tol_series((int)to, (int)from, e.f)
                         : 2 * tol_exact((int)from, (int)to, ba);
  bool win = meth != 0 && (from == 5 || to == 5) && std::max(tin, tm) > 1e148L && std::min(tin, tm) < 1e156L;
  if (win && !(err <= tol * gran) && kn("C15-authalic-subnormal")) { v.known("C15-authalic-subnormal", "round trip through the authalic subnormal window"); return v; }
  vle(v, err, tol * gran, meth == 0 ? "series round trip: relative error of tan [ulp]" : "exact round trip: relative error of tan [ulp]");
  return v;
}

// ------------------------------------------------------------------------------------------------ C15.c series vs exact
Verdict check_c(const J& r) {
  Verdict v; EllRec e;
  if (!get_ell(r, e) || !ell_domain(e) || !series_domain(e)) { v.skip("outside |f| <= 1/150"); return v; }
  long long from = r.geti("from"), to = r.geti("to");
  double y = r.getd("y"), x = r.getd("x");
  if (!pair_ok(from, to, 0)) { v.skip("bad pair"); return v; }
  if (!std::isfinite(y) || !std::isfinite(x) || y == 0 || x == 0) { v.skip("fixed point or non-finite (C15.d)"); return v; }
  if (std::fabs(y) < DBL_MIN || std::fabs(x) < DBL_MIN || (std::fabs(y) > DBL_MAX / 4 && std::fabs(x) > DBL_MAX / 4)) { v.skip("input at range edge"); return v; }
  AuxLatitude aux = make_aux(e);
  AuxAngle z(y, x);
  AuxAngle s = aux.Convert((int)from, (int)to, z, false), x2 = aux.Convert((int)from, (int)to, z, true);
  tag_ell(v, e); v.tag(pair_tag((int)from, (int)to));
  v.nontrivial = from != to;
  L ts = fabsl((L)s.y() / (L)s.x()), tx = fabsl((L)x2.y() / (L)x2.x());
  tag_tan(v, fabsl((L)y / (L)x));
  if (!(tx > 1e-290L && tx < 1e290L)) { v.tag("range-edge"); return v; }
  v.that(std::signbit(s.y()) == std::signbit(x2.y()) && std::signbit(s.x()) == std::signbit(x2.x()), "series and exact results in different quadrants");
  double err = (double)(fabsl(ts / tx - 1) / EPS);
  double tol = tol_series((int)from, (int)to, e.f) + tol_exact((int)from, (int)to, ba_of(e));
  L tauphi = from == 0 ? fabsl((L)y / (L)x) : (to == 0 ? tx : 0);
  bool win = (from == 5 || to == 5) && fabsl((L)y / (L)x) > 1e148L && fabsl((L)y / (L)x) < 1e156L;
  (void)tauphi;
  if (win && !(err <= tol) && kn("C15-authalic-subnormal")) { v.known("C15-authalic-subnormal", "exact leg in the authalic subnormal window"); return v; }
  vle(v, err, tol, "series vs exact: relative difference of tan [ulp]");
  return v;
}

// ------------------------------------------------------------------------------------------------ C15.d symmetries
J gen_d() {
  J r = gen_conv(false, false);
  // a second tangent for the monotonicity pair: near (a few ulps .. 1e-6 relative) or anywhere
  double y = r.getd("y"), x = r.getd("x"), t = std::fabs(y / x), t2;
  switch (vf::g::wpick({30, 30, 40})) {
    case 0: t2 = vf::g::ulps(t, (int)vf::g::irange(1, 64)); break;
    case 1: t2 = t * (1 + vf::g::loguni(1e-15, 1e-3)); break;
    default: t2 = vf::g::loguni(1e-300, 1e300); break;
  }
  r["t2"] = J::num(t2);
  r["fix"] = J::integer(vf::g::wpick({70, 10, 10, 10}));     // 0 generic, 1 y=0, 2 x=0, 3 degree fixed points
  return r;
}
bool same_d(double a, double b) { return a == b || (std::isnan(a) && std::isnan(b)); }
Verdict check_d(const J& r) {
  Verdict v; EllRec e;
  if (!get_ell(r, e) || !ell_domain(e)) { v.skip("ellipsoid outside documented domain"); return v; }
  long long from = r.geti("from"), to = r.geti("to"), meth = r.geti("meth"), fix = r.geti("fix");
  double y = r.getd("y"), x = r.getd("x"), t2 = r.getd("t2");
  if (!pair_ok(from, to, meth) || fix < 0 || fix > 3) { v.skip("bad pair"); return v; }
  if (meth == 0 && !series_domain(e)) { v.skip("series outside |f| <= 1/150"); return v; }
  if (!std::isfinite(y) || !std::isfinite(x) || y == 0 || x == 0 || !(t2 > 0) || !std::isfinite(t2)) { v.skip("non-finite or zero input"); return v; }
  if (std::fabs(y) < DBL_MIN || std::fabs(x) < DBL_MIN || (std::fabs(y) > DBL_MAX / 4 && std::fabs(x) > DBL_MAX / 4)) { v.skip("input at range edge"); return v; }
  AuxLatitude aux = make_aux(e);
  tag_ell(v, e); v.tag(meth == 0 ? "series" : meth == 1 ? "exact" : "to/from-auxiliary"); v.tag(pair_tag((int)from, (int)to));
  int F = (int)from, T = (int)to, M = (int)meth;
  if (fix == 1 || fix == 2) {
    // fixed points: 0 and +-90 degrees, every sign combination
    v.tag(fix == 1 ? "fixed-point-0" : "fixed-point-90");
    for (int sy = -1; sy <= 1; sy += 2) for (int sx = -1; sx <= 1; sx += 2) {
      AuxAngle z = fix == 1 ? AuxAngle(sy * 0.0, sx * std::fabs(x)) : AuxAngle(sy * std::fabs(y), sx * 0.0);
      AuxAngle o = lib_convert(aux, F, T, M, z);
      // (an AuxAngle may represent +-90 degrees as (+-inf, x) and 0 as (y, +-inf): AuxAngle.hpp allows one infinite component)
      double tn = o.y() / o.x();
      if (fix == 1) {
        v.that(tn == 0 && !std::isnan(o.x()), "latitude 0 is not mapped to 0");
        v.that(std::signbit(o.x()) == std::signbit(z.x()), "sign of x lost at latitude 0");
      } else {
        v.that(std::isinf(tn) && o.degrees() == (sy > 0 ? 90.0 : -90.0), "latitude +-90 is not mapped to +-90");
        v.that(std::signbit(o.y()) == std::signbit(z.y()), "sign of y lost at latitude +-90");
      }
    }
    return v;
  }
  if (fix == 3) {
    v.tag("fixed-point-degrees");
    bool ex = M != 0;
    for (double z : {0.0, 90.0, -90.0}) {
      double o = aux.Convert(F, T, z, ex);
      v.that(o == z, "degree-valued conversion does not fix 0 / +-90");
    }
    if (!e.axes && ex) {
      Ellipsoid el(e.a, e.f);
      for (double z : {0.0, 90.0, -90.0}) { double o; if (ellipsoid_wrapper(el, F, T, z, o)) v.that(o == z, "Ellipsoid latitude wrapper does not fix 0 / +-90"); }
    }
    return v;
  }
  v.nontrivial = from != to;
  AuxAngle z(y, x);
  AuxAngle o = lib_convert(aux, F, T, M, z);
  // oddness, bit-exact
  AuxAngle on = lib_convert(aux, F, T, M, AuxAngle(-y, x));
  v.that(same_d(on.y(), -o.y()) && same_d(on.x(), o.x()), "conversion is not odd (bit-exact): f(-zeta) != -f(zeta)");
  // quadrant kept under reflection in the y axis (x -> -x): the same latitude seen from the other side
  AuxAngle om = lib_convert(aux, F, T, M, AuxAngle(y, -x));
  v.that(std::signbit(om.y()) == std::signbit(y) && std::signbit(om.x()) == !std::signbit(x), "quadrant not preserved for x -> -x");
  v.that(std::signbit(o.y()) == std::signbit(y) && std::signbit(o.x()) == std::signbit(x), "quadrant not preserved");
  L to1 = fabsl((L)o.y() / (L)o.x()), tom = fabsl((L)om.y() / (L)om.x());
  if (to1 > 1e-290L && to1 < 1e290L) vle(v, fabsl(tom / to1 - 1) / EPS, 4, "|tan| differs between (y, x) and (y, -x) [ulp]");
  // degree-valued oddness
  {
    double zd = std::atan2(std::fabs(y), std::fabs(x)) * 180 / M_PI;
    double a1 = aux.Convert(F, T, zd, M != 0), a2 = aux.Convert(F, T, -zd, M != 0);
    v.that(same_d(a2, -a1), "degree-valued conversion is not odd (bit-exact)");
  }
  // monotonicity: same quadrant, |tan| t1 < t2  =>  out1 <= out2 up to round-off, strictly when well separated
  double t1 = std::fabs(y / x);
  if (std::isfinite(t1) && t1 >= DBL_MIN && t2 >= DBL_MIN && t1 != t2) {
    double lo = std::min(t1, t2), hi = std::max(t1, t2);
    AuxAngle olo = lib_convert(aux, F, T, M, AuxAngle(lo, 1.0)), ohi = lib_convert(aux, F, T, M, AuxAngle(hi, 1.0));
    L a = (L)olo.y() / (L)olo.x(), b = (L)ohi.y() / (L)ohi.x();
    if (a > 1e-290L && b < 1e290L && b > 0) {
      double ba = ba_of(e);
      double n = M == 0 ? tol_series(F, T, e.f) : tol_exact(F, T, ba);
      bool win = M != 0 && (F == 5 || T == 5) && hi > 1e148 && lo < 1e156;
      v.tag(hi / lo < 1 + 1e-12 ? "mono-pair-ulps" : hi / lo < 1.001 ? "mono-pair-near" : "mono-pair-far");
      bool viol = !(a <= b * (1 + 2 * n * EPS));
      if (viol && win && kn("C15-authalic-subnormal")) { v.known("C15-authalic-subnormal", "monotonicity in the authalic subnormal window"); return v; }
      v.that(!viol, "conversion not monotonic (beyond twice the round-off law)");
      // strictly increasing when the inputs differ by more than the round-off law times the largest log-derivative (<= ~100)
      if (hi / lo > 1 + 1e-6 * std::max(1.0, std::max(ba, 1 / ba))) v.that(a < b || (win && kn("C15-authalic-subnormal")), "conversion not strictly increasing on well separated inputs");
    }
  }
  return v;
}

// ------------------------------------------------------------------------------------------------ C15.e derivative, radii
J gen_e() {
  J r = J::obj();
  EllRec e = vf::g::coin(1, 3) ? gen_ell_series() : gen_ell_exact();
  put_ell(r, e);
  r["to"] = J::integer(vf::g::irange(0, 5));
  double y, x; gen_yx(y, x);
  int c = vf::g::wpick({80, 10, 10});
  if (c == 1) x = vf::g::sgn() * 0.0;                  // the pole: limit of the derivative
  if (c == 2) { y = vf::g::sgn() * 0.0; }              // the equator
  r["y"] = J::num(y); r["x"] = J::num(x);
  return r;
}
Verdict check_e(const J& r) {
  Verdict v; EllRec e;
  if (!get_ell(r, e) || !ell_domain(e)) { v.skip("ellipsoid outside documented domain"); return v; }
  long long to = r.geti("to"); double y = r.getd("y"), x = r.getd("x");
  if (to < 0 || to > 5 || !std::isfinite(y) || !std::isfinite(x) || (y == 0 && x == 0)) { v.skip("bad input"); return v; }
  if ((y != 0 && std::fabs(y) < DBL_MIN) || (x != 0 && std::fabs(x) < DBL_MIN) || (std::fabs(y) > DBL_MAX / 4 && std::fabs(x) > DBL_MAX / 4)) { v.skip("input at range edge"); return v; }
  AuxLatitude aux = make_aux(e);
  ref::aux::Ell E = make_ref(e);
  if (!E.ok()) { v.skip("reference ellipsoid not converged"); return v; }
  tag_ell(v, e); v.tag(std::string("to-") + AUXN[to]);
  double ba = ba_of(e);
  // ---- the derivative d tan(eta) / d tan(phi) returned by ToAuxiliary
  double diff = NAN;
  AuxAngle o = aux.ToAuxiliary((int)to, AuxAngle(y, x), &diff);
  (void)o;
  L dref, tref;
  bool pole = x == 0, equator = y == 0;
  v.tag(pole ? "pole" : equator ? "equator" : "generic");
  bool ok;
  if (equator) ok = E.conv(0, (int)to, 1e-200, 1.0, tref, &dref);      // d tan eta/d tan phi at 0: the slope there
  else ok = E.conv(0, (int)to, y, x, tref, &dref);
  if (!ok) { v.skip("reference not converged"); return v; }
  if (!pole && !equator) tag_tan(v, (L)y / (L)x);
  // the derivative is a ratio of cos^2 of the two latitudes times d eta/d phi: same law as the tangent itself, plus
  // the few operations forming it
  double n = tol_exact(0, (int)to, ba) + 8;
  L tauphi = pole ? 1e300L : fabsl((L)y / (L)x);
  bool win = to == 5 && tauphi > 1e150L && tauphi < 1.4e154L;
  if (pole && to == 5 && std::isnan(diff)) {
    // AuxLatitude::Authalic tests !isnan(tphi) where Rectifying and Conformal test !isinf(tphi): at the pole the general
    // branch is taken and gives 0/0; the limit coded in the else-branch (1-f)^2 sqrt(q/2) is unreachable
    if (kn("C15-authalic-diff-pole")) { v.known("C15-authalic-diff-pole", "ToAuxiliary(AUTHALIC, pole, &diff) returns NaN instead of the limit of the derivative"); return v; }
  }
  if (dref > 1e-290L && dref < 1e290L && (pole || (tref > 1e-290L && tref < 1e290L))) {
    L err = fabsl((L)diff / dref - 1) / EPS;
    if (win && !(err <= n) && kn("C15-authalic-subnormal")) { v.known("C15-authalic-subnormal", "derivative in the authalic subnormal window"); return v; }
    if (!(win && err <= n)) vle(v, err, n, "ToAuxiliary derivative d tan(eta)/d tan(phi): relative error [ulp]");
  } else v.tag("range-edge");
  // ---- radii
  {
    L rr = E.rect_radius(), c2 = E.authalic_r2();
    double go = ba < 1 ? 1 / (ba * ba) : 0;
    vle(v, fabsl((L)aux.RectifyingRadius(true) / rr - 1) / EPS, 8, "RectifyingRadius(exact) relative error [ulp]");
    vle(v, fabsl((L)aux.AuthalicRadiusSquared(true) / c2 - 1) / EPS, 8 + 1.2 * go, "AuthalicRadiusSquared(exact) relative error [ulp]");
    if (series_domain(e)) {
      vle(v, fabsl((L)aux.RectifyingRadius(false) / rr - 1) / EPS, 8, "RectifyingRadius(series) relative error [ulp]");
      vle(v, fabsl((L)aux.AuthalicRadiusSquared(false) / c2 - 1) / EPS, 8, "AuthalicRadiusSquared(series) relative error [ulp]");
    }
    v.that(aux.EquatorialRadius() == e.a, "EquatorialRadius() != a");
    vle(v, fabsl((L)aux.PolarSemiAxis() / E.b() - 1) / EPS, 2, "PolarSemiAxis() [ulp]");
    vle(v, fabsl((L)aux.Flattening() - E.f()), 2 * EPS * fabsl(E.f()), "Flattening()");
  }
  return v;
}

// ------------------------------------------------------------------------------------------------ C15.f Ellipsoid
double gen_fx() {
  switch (vf::g::wpick({55, 20, 20, 5})) {
    case 0: return gen_ell_exact().f;
    case 1: return vf::g::sgn() * vf::g::loguni(1e-300, 1e-12);
    case 2: return 1 - vf::g::loguni(1e-12, 1e-2);
    default: return -vf::g::loguni(1.0, 1e6);
  }
}
J gen_f() {
  J r = J::obj();
  EllRec e = vf::g::coin(1, 3) ? gen_ell_series() : gen_ell_exact();
  e.axes = false; e.b = e.a * (1 - e.f);
  put_ell(r, e);
  r["phi"] = J::num(gg::latitude());
  r["azi"] = J::num(gg::angle());
  r["fx"] = J::num(gen_fx());
  r["cross"] = J::integer(vf::g::coin(1, 4));       // the GeodesicExact / Rhumb(exact) constructors are slow
  return r;
}
Verdict check_f(const J& r) {
  Verdict v; EllRec e;
  if (!get_ell(r, e) || !ell_domain(e) || e.axes) { v.skip("ellipsoid outside documented domain"); return v; }
  double phi = r.getd("phi"), azi = r.getd("azi"), fx = r.getd("fx");
  if (!(std::fabs(phi) <= 90) || !std::isfinite(azi) || std::fabs(azi) > 1e6 || !(fx < 1) || !std::isfinite(fx)) { v.skip("argument outside documented domain"); return v; }
  Ellipsoid el(e.a, e.f);
  ref::aux::Ell E = make_ref(e);
  ref::aux::LatFuncs lf;
  if (!E.ok() || !E.lat_funcs(phi, lf)) { v.skip("reference not converged"); return v; }
  tag_ell(v, e);
  double ba = ba_of(e), go = ba < 1 ? 1 / (ba * ba) : 0;
  bool pole = std::fabs(phi) == 90;
  v.tag(pole ? "pole" : phi == 0 ? "equator" : std::fabs(phi) > 89 ? "near-pole" : std::fabs(phi) < 1 ? "near-equator" : "mid-latitude");
  v.nontrivial = e.f != 0;
  auto relulp = [](L lib, L ref) -> L { return ref == 0 ? (lib == 0 ? 0 : (L)INFINITY) : fabsl(lib / ref - 1) / EPS; };
  std::string kid, kwhy;      // a listed known finding met on the way; reported after all other relations were evaluated
  // ---- dimensions and shape
  v.that(el.EquatorialRadius() == e.a, "EquatorialRadius() != a");
  v.that(el.Flattening() == e.f, "Flattening() != f");
  vle(v, relulp(el.PolarRadius(), E.b()), 2, "PolarRadius [ulp]");
  vle(v, relulp(el.QuarterMeridian(), E.quarter_meridian()), 8, "QuarterMeridian [ulp]");
  vle(v, relulp(el.Area(), E.area()), 8 + 1.2 * go, "Area [ulp]");
  vle(v, relulp(el.Volume(), E.volume()), 4, "Volume [ulp]");
  vle(v, relulp(el.SecondFlattening(), E.fp()), 2, "SecondFlattening [ulp]");
  vle(v, relulp(el.ThirdFlattening(), E.n()), 2, "ThirdFlattening [ulp]");
  vle(v, relulp(el.EccentricitySq(), E.e2()), 2, "EccentricitySq [ulp]");
  vle(v, relulp(el.SecondEccentricitySq(), E.ep2()), 3 + go, "SecondEccentricitySq [ulp]");     // e2/(1-e2): 1-e2 cancels for a >> b
  vle(v, relulp(el.ThirdEccentricitySq(), E.epp2()), 4, "ThirdEccentricitySq [ulp]");
  // ---- quantities at latitude phi
  double nmu = tol_exact(0, 3, ba), nchi = tol_exact(0, 4, ba);
  vle(v, relulp(el.CircleRadius(phi), lf.circle_radius), 4, "CircleRadius [ulp]");
  // latitudes below 1e-306 degrees are subnormal in radians: absolute floor (in units of the radius) 1e-320
  vle(v, fabsl((L)el.CircleHeight(phi) - lf.circle_height), 4 * EPS * fabsl(lf.circle_height) + 1e-320L * E.b(), "CircleHeight [m]");
  vle(v, fabsl((L)el.MeridianDistance(phi) - lf.merid_dist), (nmu + 4) * EPS * fabsl(lf.merid_dist) + 1e-320L * E.a(), "MeridianDistance [m]");
  vle(v, relulp(el.MeridionalCurvatureRadius(phi), lf.rho), 6 + 2 * go, "MeridionalCurvatureRadius [ulp]");
  vle(v, relulp(el.TransverseCurvatureRadius(phi), lf.nu), 4 + go, "TransverseCurvatureRadius [ulp]");
  vle(v, relulp(el.NormalCurvatureRadius(phi, azi), E.normal_curv_radius(phi, azi)), 8 + 2 * go, "NormalCurvatureRadius [ulp]");
  // isometric latitude (degrees): psi = asinh(tan chi): d psi = tanh(psi)-weighted relative error of tan chi
  {
    double psi = el.IsometricLatitude(phi);
    if (pole) {
      // Ellipsoid.hpp: "The value returned for phi = +-90 is some (positive or negative) large but finite value, such
      // that InverseIsometricLatitude returns the original value of phi."
      v.that(std::signbit(psi) == std::signbit(phi) && !std::isnan(psi), "IsometricLatitude(+-90) has the wrong sign or is NaN");
      v.that(el.InverseIsometricLatitude(psi) == phi, "InverseIsometricLatitude(IsometricLatitude(+-90)) != +-90");
      if (!std::isfinite(psi)) {
        if (kn("C15-isometric-pole-inf")) { kid = "C15-isometric-pole-inf"; kwhy = "IsometricLatitude(+-90) is infinite, documented as large but finite"; }
        else v.that(false, "IsometricLatitude(+-90) is not finite (documented: large but finite)");
      }
    } else {
      L tol = (nchi * EPS * fabsl(tanhl(lf.psi * (M_PI / 180))) + 4 * EPS * fabsl(lf.psi * (M_PI / 180))) * (180 / M_PI) + 1e-320L * std::max(1.0, ba * ba);
      vle(v, fabsl((L)psi - lf.psi), tol, "IsometricLatitude [deg]");
      // inverse at the library's own psi (rounded): reference inverse of that double
      L pref;
      if (std::isfinite(psi) && E.inv_isometric(psi, pref)) {
        double back = el.InverseIsometricLatitude(psi);
        L pr = pref * (M_PI / 180);
        L tolb = (nchi + 4) * EPS * fabsl(sinl(2 * pr)) / 2 * (180 / M_PI) + 4 * EPS * fabsl(pref) + 1e-320L;
        vle(v, fabsl((L)back - pref), tolb, "InverseIsometricLatitude [deg]");
      }
    }
  }
  // ---- flattening / eccentricity conversions: definitions and mutual inverses
  {
    typedef double (*Fn)(double);
    static const Fn fn[10] = {Ellipsoid::SecondFlatteningToFlattening, Ellipsoid::FlatteningToSecondFlattening,
                              Ellipsoid::ThirdFlatteningToFlattening, Ellipsoid::FlatteningToThirdFlattening,
                              Ellipsoid::EccentricitySqToFlattening, Ellipsoid::FlatteningToEccentricitySq,
                              Ellipsoid::SecondEccentricitySqToFlattening, Ellipsoid::FlatteningToSecondEccentricitySq,
                              Ellipsoid::ThirdEccentricitySqToFlattening, Ellipsoid::FlatteningToThirdEccentricitySq};
    static const char* nm[10] = {"SecondFlatteningToFlattening", "FlatteningToSecondFlattening", "ThirdFlatteningToFlattening",
                                 "FlatteningToThirdFlattening", "EccentricitySqToFlattening", "FlatteningToEccentricitySq",
                                 "SecondEccentricitySqToFlattening", "FlatteningToSecondEccentricitySq",
                                 "ThirdEccentricitySqToFlattening", "FlatteningToThirdEccentricitySq"};
    v.tag(std::fabs(fx) < 1e-12 ? "fx-tiny" : fx > 0.99 ? "fx-near-1" : fx < -1 ? "fx<-1" : "fx-moderate");
    for (int k = 0; k < 10; k += 2) {
      // f -> X (odd index k+1), then X -> f (even index k)
      double X = fn[k + 1](fx);
      L Xref = ref::aux::shape_conv(k + 1, fx);
      char b[96];
      if (std::isfinite((double)Xref) && fabsl(Xref) > 1e-300L && fabsl(Xref) < 1e300L) {
        std::snprintf(b, sizeof b, "%s vs definition [ulp]", nm[k + 1]);
        // f/(1-f), f(2-f)/(1-f)^2: 1-f is exact or one rounding; all are a few operations
        vle(v, relulp(X, Xref), 6, b);
      }
      if (!std::isfinite(X) || X == 0 || std::fabs(X) < 1e-300) continue;
      double fb = fn[k](X);
      L fref = ref::aux::shape_conv(k, X);
      if (fabsl(fref) > 1e-300L) {
        std::snprintf(b, sizeof b, "%s vs definition [ulp]", nm[k]);
        // known finding: e'^2/(sqrt(1+e'^2) + 1 + e'^2) and its e''^2 analogue add 1 to the square root first and cancel
        // against e'^2 -> -1 (very prolate): relative error ~ eps / sqrt(1 + e'^2)
        bool canc = (k == 6 || k == 8) && X < -0.75;
        if (canc && !(relulp(fb, fref) <= 6) && kn("C15-ecc-to-flattening-cancellation")) {
          kid = "C15-ecc-to-flattening-cancellation"; kwhy = "Second/ThirdEccentricitySqToFlattening lose digits for arguments near -1"; continue; }
        if (!canc) vle(v, relulp(fb, fref), 6, b); else if (!(relulp(fb, fref) <= 6)) vle(v, relulp(fb, fref), 6, b);
        // mutual inverse: X carries one rounding; f(X) amplifies it by kappa = |X f'(X) / f|
        L h = 1e-7L;
        double Xp = X * (1 + 1e-7), Xm = X * (1 - 1e-7);
        L kap = fabsl((ref::aux::shape_conv(k, Xp) - ref::aux::shape_conv(k, Xm)) / (((L)Xp - (L)Xm) / (L)X) / fref);
        (void)h;
        if (std::isfinite((double)kap)) {
          std::snprintf(b, sizeof b, "%s o %s = id [ulp]", nm[k], nm[k + 1]);
          vle(v, relulp(fb, fx), 6 + 8 * kap, b);
        }
      }
    }
  }
  // ---- cross-class consistency
  if (r.has("cross") && r.geti("cross") != 0) {
    v.tag("cross-class-checked");
    L A = E.area(), Q = E.quarter_meridian();
    double s12;
    GeodesicExact ge(e.a, e.f);
    vle(v, relulp(ge.EllipsoidArea(), A), 8 + 1.2 * go, "GeodesicExact::EllipsoidArea vs definition [ulp]");
    ge.Inverse(0, 0, 90, 0, s12);
    vle(v, fabsl((L)s12 - Q), 2 * tol::geod_exact_doc(e.a, e.f), "GeodesicExact::Inverse(0,0,90,0) vs quarter meridian [m]");
    vle(v, fabsl((L)s12 - (L)el.QuarterMeridian()), 2 * tol::geod_exact_doc(e.a, e.f), "GeodesicExact meridian vs Ellipsoid::QuarterMeridian [m]");
    Rhumb rx(e.a, e.f, true);
    vle(v, relulp(rx.EllipsoidArea(), A), 8 + 1.2 * go, "Rhumb(exact)::EllipsoidArea vs definition [ulp]");
    vle(v, relulp(rx.EllipsoidArea(), el.Area()), 8 + 1.2 * go, "Rhumb(exact)::EllipsoidArea vs Ellipsoid::Area [ulp]");
    if (std::fabs(e.f) <= 0.2) {
      Geodesic g(e.a, e.f);
      vle(v, relulp(g.EllipsoidArea(), A), 8 + 1.2 * go, "Geodesic::EllipsoidArea vs definition [ulp]");
      vle(v, relulp(g.EllipsoidArea(), el.Area()), 8 + 1.2 * go, "Geodesic::EllipsoidArea vs Ellipsoid::Area [ulp]");
      g.Inverse(0, 0, 90, 0, s12);
      vle(v, fabsl((L)s12 - Q), 2 * tol::geod_series_doc(e.a, e.f), "Geodesic::Inverse(0,0,90,0) vs quarter meridian [m]");
      g.Inverse(-90, 30, 0, 30, s12);
      vle(v, fabsl((L)s12 - (L)el.QuarterMeridian()), 2 * tol::geod_series_doc(e.a, e.f), "Geodesic::Inverse(-90,30,0,30) vs Ellipsoid::QuarterMeridian [m]");
      v.tag("geodesic-series-checked");
    }
    if (std::fabs(e.f) <= 0.01) {
      Rhumb rs(e.a, e.f, false);
      vle(v, relulp(rs.EllipsoidArea(), A), 8, "Rhumb(series)::EllipsoidArea vs definition [ulp]");
      v.tag("rhumb-series-checked");
    }
  }
  if (!v.failed() && !kid.empty()) v.known(kid, kwhy);
  return v;
}

// ------------------------------------------------------------------------------------------------ C15.g1 Carlson
typedef EllipticFunction EF;
double gen_carg(bool extreme) {
  if (extreme) return vf::g::loguni(1e-300, 1e300);
  switch (vf::g::wpick({50, 30, 20})) {
    case 0: return vf::g::loguni(1e-6, 1e6);
    case 1: return vf::g::loguni(1e-100, 1e100);
    default: return vf::g::uni(0, 4);
  }
}
J gen_g1() {
  J r = J::obj();
  int fn = (int)vf::g::irange(0, 6);          // 0 RF3, 1 RF2, 2 RC, 3 RG3, 4 RG2, 5 RJ, 6 RD
  bool extreme = vf::g::coin(1, 6);
  double x = gen_carg(extreme), y = gen_carg(extreme), z = gen_carg(extreme), p = gen_carg(extreme);
  switch (vf::g::wpick({55, 15, 10, 10, 10})) {
    case 0: break;
    case 1: y = x; break;                                              // equal arguments
    case 2: y = x; z = x; if (vf::g::coin()) p = x; break;             // all equal: closed forms
    case 3: x = 0; break;                                              // one zero (where allowed)
    default: y = vf::g::ulps(x, (int)vf::g::irange(-4, 4)); if (!(y > 0)) y = x; z = vf::g::coin() ? vf::g::ulps(x, (int)vf::g::irange(-4, 4)) : z; if (!(z > 0)) z = x; break;
  }
  if (x < 1e-300 && x != 0) x = 1e-300;
  r["fn"] = J::integer(fn); r["x"] = J::num(x); r["y"] = J::num(y); r["z"] = J::num(z); r["p"] = J::num(p);
  r["lam"] = J::integer(vf::g::irange(-20, 20));     // homogeneity scale 4^lam
  r["perm"] = J::integer(vf::g::irange(0, 5));
  return r;
}
bool in_rng(double v, bool allow0) { return (allow0 && v == 0) || (v >= 1e-300 && v <= 1e300); }
void permute3(int perm, double& x, double& y, double& z) {
  double a[3] = {x, y, z};
  static const int P[6][3] = {{0, 1, 2}, {0, 2, 1}, {1, 0, 2}, {1, 2, 0}, {2, 0, 1}, {2, 1, 0}};
  x = a[P[perm][0]]; y = a[P[perm][1]]; z = a[P[perm][2]];
}
// compare with over/underflow awareness: the library may return inf / 0 only where the true value is outside the double
// range.  quiet: inside the regime of a listed finding the comparison only sets `bad` (kept out of the statistics).
void cmp_carlson(Verdict& v, double lib, L ref, double nulp, const char* what, bool& bad, bool quiet) {
  L err, tol;
  if (ref > 1.7e308L) { err = lib > 1e308 ? 0 : 1; tol = 0.5; }
  else if (ref < 1e-300L) { err = fabsl((L)lib - ref); tol = nulp * EPS * ref + 4 * DBL_TRUE_MIN; }
  else { err = fabsl((L)lib / ref - 1) / EPS; tol = nulp; }
  if (!(err <= tol)) bad = true;
  if (!quiet) vle(v, err, tol, what);
}
Verdict check_g1(const J& r) {
  Verdict v;
  long long fn = r.geti("fn"), lam = r.geti("lam"), perm = r.geti("perm");
  double x = r.getd("x"), y = r.getd("y"), z = r.getd("z"), p = r.getd("p");
  if (fn < 0 || fn > 6 || lam < -20 || lam > 20 || perm < 0 || perm > 5) { v.skip("bad record"); return v; }
  static const char* FN[7] = {"RF(x,y,z)", "RF(x,y)", "RC", "RG(x,y,z)", "RG(x,y)", "RJ", "RD"};
  v.tag(FN[fn]);
  // documented domains
  bool dom;
  switch (fn) {
    case 0: case 3: dom = in_rng(x, true) && in_rng(y, true) && in_rng(z, true) && ((x == 0) + (y == 0) + (z == 0) <= 1); break;
    case 1: case 4: dom = in_rng(x, false) && in_rng(y, false); break;
    case 2: dom = in_rng(x, true) && in_rng(y, false); break;
    case 5: dom = in_rng(x, true) && in_rng(y, true) && in_rng(z, true) && in_rng(p, false) && ((x == 0) + (y == 0) + (z == 0) <= 1); break;
    default: dom = in_rng(x, true) && in_rng(y, true) && in_rng(z, false) && !(x == 0 && y == 0); break;
  }
  if (!dom) { v.skip("arguments outside the documented domain / generated range"); return v; }
  double mn = INFINITY, mx = 0;
  int nargs = fn == 5 ? 4 : (fn == 1 || fn == 2 || fn == 4) ? 2 : 3;
  double args[4] = {x, y, z, p};
  if (fn == 5) args[3] = p;
  for (int i = 0; i < nargs; ++i) { if (args[i] > 0) mn = std::min(mn, args[i]); mx = std::max(mx, args[i]); }
  // moderate: no product of three differences, x*y/z or (x-y)/y leaves the double range
  // (and RJ needs ~log4(p / min(x,y,z)) duplications while it accumulates 64^n: dynamic range <= 1e100)
  bool moderate = mn >= 1e-100 && mx <= 1e100 && mx / mn <= 1e100;
  v.tag(moderate ? (mx / mn < 1e3 ? "args-similar" : "args-wide") : "args-extreme");
  if (x == y || y == z) v.tag("equal-args");
  if (x == 0 || y == 0 || z == 0) v.tag("zero-arg");
  bool bad = false;
  // ---- regimes of the listed findings (decided from the arguments alone, before any comparison)
  const char* kid = nullptr; const char* kwhy = nullptr;
  if (fn == 5) {
    // RJ forms 1 + e_n, e_n = delta / (64^n d_n^2); for n = 0 this is exactly 1 + prod_i (sqrt p - sqrt x_i)/(sqrt p + sqrt x_i),
    // which cancels whenever p is far from all of x, y, z with an odd number of them above p (e.g. p << x, y, z): the relative
    // rounding error eps / (1 + e_0) goes straight into the result (RJ(1,2,3,1e-40) = 46.8 instead of 56.35)
    L sp = sqrtl((L)p), pr = 1;
    for (double xi : {x, y, z}) pr *= (sp - sqrtl((L)xi)) / (sp + sqrtl((L)xi));
    if (1 + pr < 0.25L) { kid = "C15-RJ-cancellation"; kwhy = "RJ(x,y,z,p) loses accuracy like eps / (1 + e_0), 1 + e_0 = 1 + prod (sqrt p - sqrt x_i)/(sqrt p + sqrt x_i)"; v.tag("RJ-cancellation-regime"); }
  }
  if (fn == 3 && x > 0 && y > 0 && z > 0) {
    // RG(x,y,z) = (z RF - (x-z)(y-z) RD/3 + sqrt(x y / z)) / 2 is evaluated with z as given; unless z lies between x and y
    // the terms cancel (z smallest: like sqrt(x y / z) / RG; z largest: like ln(z/x)).  RG(1,1,1e-10) is wrong in the 12th
    // digit.  Measure: sum of the magnitudes of the three terms over 2 RG, for the order given and the permuted one.
    L rf, rd, rd2, rg;
    double a2 = x, b2 = y, c2 = z; permute3((int)perm, a2, b2, c2);
    if (ref::ell::RF(x, y, z, rf) && ref::ell::RD(x, y, z, rd) && ref::ell::RD(a2, b2, c2, rd2) && ref::ell::RG(x, y, z, rg)) {
      L canc = ((L)z * rf + fabsl(((L)x - z) * ((L)y - z)) * rd / 3 + sqrtl((L)x * (L)y / (L)z)) / (2 * rg);
      L cancp = ((L)c2 * rf + fabsl(((L)a2 - c2) * ((L)b2 - c2)) * rd2 / 3 + sqrtl((L)a2 * (L)b2 / (L)c2)) / (2 * rg);
      // (repaired in /repo: "fix: EllipticFunction::RG(x, y, z) lost accuracy unless z was the middle argument"; the regime is
      // still tagged so that its population is visible, but nothing is excused here any more)
      if (std::max(canc, cancp) > 4) v.tag("RG-cancellation-regime");
    }
  }
  if (!kid && !moderate && (fn == 2 || fn == 3 || fn == 5 || fn == 6)) {
    kid = "C15-carlson-range"; kwhy = "RJ / RG / RC / RD return NaN, inf, 0 or garbage for finite in-domain arguments beyond ~1e+-100 or a dynamic range > 1e100 (intermediate overflow/underflow, 64^n overflow)";
  }
  bool Q = kid != nullptr;
  double s = std::ldexp(1.0, 2 * (int)lam);      // 4^lam, exact
  bool scale_ok = moderate ? (mx * s <= 1e100 && mn * s >= 1e-100) : (mx * s <= 1e300 && mn * s >= 1e-300);
  double val; L ref; bool okref;
  // Tolerances [ulp]: calibrated, 4x the maximum seen (RF 2.5, RC 1.5, RD 6, RG 6 (22 for the two-argument
  // AGM form with x/y < 1e-200), RJ 12)
  switch (fn) {
    case 0: {
      val = EF::RF(x, y, z); okref = ref::ell::RF(x, y, z, ref);
      if (!okref) { v.skip("reference refused"); return v; }
      cmp_carlson(v, val, ref, 12, "RF vs Boost [ulp]", bad, Q);
      double a = x, b = y, c = z; permute3((int)perm, a, b, c);
      cmp_carlson(v, EF::RF(a, b, c), ref, 12, "RF symmetry [ulp]", bad, Q);
      if (scale_ok) { L rs = ref / sqrtl((L)s); cmp_carlson(v, EF::RF(x * s, y * s, z * s), rs, 12, "RF homogeneity degree -1/2 [ulp]", bad, Q); }
      if (x == y && y == z) cmp_carlson(v, val, 1 / sqrtl((L)x), 4, "RF(x,x,x) = x^-1/2 [ulp]", bad, Q);
      if (x == 0) { cmp_carlson(v, EF::RF(y, z), ref, 12, "RF(y,z) two-argument form vs RF(0,y,z) [ulp]", bad, Q); }
      break;
    }
    case 1: {
      val = EF::RF(x, y); okref = ref::ell::RF(x, y, 0, ref);
      if (!okref) { v.skip("reference refused"); return v; }
      cmp_carlson(v, val, ref, 12, "RF(x,y) vs Boost RF(x,y,0) [ulp]", bad, Q);
      cmp_carlson(v, EF::RF(y, x), ref, 12, "RF(x,y) symmetry [ulp]", bad, Q);
      break;
    }
    case 2: {
      val = EF::RC(x, y); okref = ref::ell::RC(x, y, ref);
      if (!okref) { v.skip("reference refused"); return v; }
      cmp_carlson(v, val, ref, 8, "RC vs Boost [ulp]", bad, Q);
      if (scale_ok) cmp_carlson(v, EF::RC(x * s, y * s), ref / sqrtl((L)s), 8, "RC homogeneity degree -1/2 [ulp]", bad, Q);
      if (x > 0) cmp_carlson(v, EF::RF(x, y, y), ref, 12, "RF(x,y,y) = RC(x,y) [ulp]", bad, Q);
      if (x == y) cmp_carlson(v, val, 1 / sqrtl((L)x), 4, "RC(x,x) = x^-1/2 [ulp]", bad, Q);
      break;
    }
    case 3: {
      val = EF::RG(x, y, z); okref = ref::ell::RG(x, y, z, ref);
      if (!okref) { v.skip("reference refused"); return v; }
      double n3 = (x == 0 || y == 0 || z == 0) ? 24 + 0.6 * std::log(mx / mn) : 32;     // a zero argument: the two-argument AGM form
      cmp_carlson(v, val, ref, n3, "RG vs Boost [ulp]", bad, Q);
      double a = x, b = y, c = z; permute3((int)perm, a, b, c);
      cmp_carlson(v, EF::RG(a, b, c), ref, n3, "RG symmetry [ulp]", bad, Q);
      if (scale_ok) cmp_carlson(v, EF::RG(x * s, y * s, z * s), ref * sqrtl((L)s), n3, "RG homogeneity degree +1/2 [ulp]", bad, Q);
      if (x == y && y == z) cmp_carlson(v, val, sqrtl((L)x), 8, "RG(x,x,x) = x^1/2 [ulp]", bad, Q);
      break;
    }
    case 4: {
      val = EF::RG(x, y); okref = ref::ell::RG(x, y, 0, ref);
      if (!okref) { v.skip("reference refused"); return v; }
      // AGM stopped at a relative difference 4e-9; the neglected term carries 2^n, n ~ log2 ln(max/min) steps: seen 21 ulp at a
      // ratio 1e300, 190 ulp at 1e549
      double n2 = 24 + 0.6 * std::log(mx / mn);
      cmp_carlson(v, val, ref, n2, "RG(x,y) vs Boost RG(x,y,0) [ulp]", bad, Q);
      cmp_carlson(v, EF::RG(y, x), ref, n2, "RG(x,y) symmetry [ulp]", bad, Q);
      cmp_carlson(v, EF::RG(0, x, y), ref, n2, "RG(0,x,y) vs RG(x,y) [ulp]", bad, Q);
      break;
    }
    case 5: {
      val = EF::RJ(x, y, z, p); okref = ref::ell::RJ(x, y, z, p, ref);
      if (!okref) { v.skip("reference refused"); return v; }
      cmp_carlson(v, val, ref, 48, "RJ vs Boost [ulp]", bad, Q);
      double a = x, b = y, c = z; permute3((int)perm, a, b, c);
      cmp_carlson(v, EF::RJ(a, b, c, p), ref, 48, "RJ symmetry in x,y,z [ulp]", bad, Q);
      if (scale_ok) { L rs = ref / ((L)s * sqrtl((L)s)); cmp_carlson(v, EF::RJ(x * s, y * s, z * s, p * s), rs, 48, "RJ homogeneity degree -3/2 [ulp]", bad, Q); }
      if (x == y && y == z && z == p) cmp_carlson(v, val, 1 / ((L)x * sqrtl((L)x)), 8, "RJ(x,x,x,x) = x^-3/2 [ulp]", bad, Q);
      break;
    }
    default: {
      val = EF::RD(x, y, z); okref = ref::ell::RD(x, y, z, ref);
      if (!okref) { v.skip("reference refused"); return v; }
      cmp_carlson(v, val, ref, 24, "RD vs Boost [ulp]", bad, Q);
      cmp_carlson(v, EF::RD(y, x, z), ref, 24, "RD symmetry in x,y [ulp]", bad, Q);
      if (scale_ok) { L rs = ref / ((L)s * sqrtl((L)s)); cmp_carlson(v, EF::RD(x * s, y * s, z * s), rs, 24, "RD homogeneity degree -3/2 [ulp]", bad, Q); }
      if (moderate || (mx <= 1e100 && mn >= 1e-100)) cmp_carlson(v, EF::RJ(x, y, z, z), ref, 48, "RJ(x,y,z,z) = RD(x,y,z) [ulp]", bad, Q);
      if (x == y && y == z) cmp_carlson(v, val, 1 / ((L)x * sqrtl((L)x)), 8, "RD(x,x,x) = x^-3/2 [ulp]", bad, Q);
      break;
    }
  }
  v.nontrivial = true;
  if (Q && bad && !v.failed()) {
    if (kn(kid)) { Verdict k; k.cls = v.cls; k.known(kid, kwhy); return k; }
    v.that(false, std::string(FN[fn]) + " wrong beyond tolerance in the regime of " + kid);
  }
  return v;
}

// ------------------------------------------------------------------------------------------------ C15.g2 Legendre forms
struct ParRec { double k2, kp2, a2, ap2; bool four; };
// one modulus-like parameter and its complement.  The generated ranges are bounded by the cost of the reference
// quadrature (a near-singularity at distance sqrt(k'^2) resp. sqrt(alpha'^2) from the integration interval):
// k'^2 >= 1e-40, alpha'^2 >= 1e-12 or exactly 0.
void gen_modulus(double& k2, double& kp2, bool& four, bool for_alpha) {
  four = false;
  int c = for_alpha ? vf::g::wpick({25, 5, 0, 20, 10, 10, 20, 10}) : vf::g::wpick({10, 8, 8, 14, 12, 14, 22, 12});
  switch (c) {
    case 0: k2 = 0; break;
    case 1: k2 = 1; break;
    case 2: k2 = vf::g::ulps(1.0, -(int)vf::g::irange(1, 4)); break;
    case 3: k2 = vf::g::uni(0, 1); break;
    case 4: k2 = vf::g::sgn() * vf::g::loguni(1e-12, 0.1); break;
    case 5: k2 = 1 - vf::g::loguni(for_alpha ? 1e-12 : 1e-16, 1e-2); break;
    case 6: k2 = -vf::g::loguni(for_alpha ? 1e-6 : 1e-12, for_alpha ? 1e4 : 1e6); break;
    default:                                         // complementary-parameter constructor, the small one given accurately
      four = true;
      if (!for_alpha && vf::g::coin(2, 3)) { kp2 = vf::g::loguni(1e-40, 1e-17); k2 = 1; }          // k2 = fl(1 - kp2) = 1
      else { k2 = vf::g::sgn() * vf::g::loguni(1e-300, 1e-17); kp2 = 1; }                          // kp2 = fl(1 - k2) = 1
      return;
  }
  kp2 = 1 - k2;
}
void gen_par(J& r) {
  double k2, kp2, a2, ap2; bool f1, f2;
  gen_modulus(k2, kp2, f1, false);
  gen_modulus(a2, ap2, f2, true);
  if (kp2 < 1e-6 && ap2 < 1e-6 && kp2 != 0 && ap2 != 0) { a2 = 0; ap2 = 1; }
  bool four = f1 || f2 || vf::g::coin(1, 5);
  r["k2"] = J::num(k2); r["kp2"] = J::num(kp2); r["alpha2"] = J::num(a2); r["alphap2"] = J::num(ap2); r["four"] = J::integer(four);
}
bool get_par(const J& r, ParRec& p, ref::ell::Par& rp) {
  p.k2 = r.getd("k2"); p.a2 = r.getd("alpha2"); p.four = r.geti("four") != 0;
  if (p.four) { p.kp2 = r.getd("kp2"); p.ap2 = r.getd("alphap2"); } else { p.kp2 = 1 - p.k2; p.ap2 = 1 - p.a2; }
  if (!(p.k2 <= 1) || !(p.a2 <= 1) || !(p.kp2 >= 0) || !(p.ap2 >= 0)) return false;
  if (!std::isfinite(p.k2) || !std::isfinite(p.a2) || !std::isfinite(p.kp2) || !std::isfinite(p.ap2)) return false;
  if (p.k2 < -1e6 || p.a2 < -1e6) return false;
  // the pairs must be complements to within one rounding (documented precondition of the 4-argument form)
  if (std::fabs((p.k2 + p.kp2) - 1) > 2 * EPS * std::max(1.0, std::fabs(p.k2))) return false;
  if (std::fabs((p.a2 + p.ap2) - 1) > 2 * EPS * std::max(1.0, std::fabs(p.a2))) return false;
  if (p.kp2 != 0 && p.kp2 < 1e-40) return false;        // generated range (cost of the reference quadrature)
  if (p.ap2 != 0 && p.ap2 < 1e-12) return false;
  if (p.kp2 < 1e-6 && p.ap2 < 1e-6 && p.kp2 != 0 && p.ap2 != 0) return false;   // both near 1: not generated (see report)
  rp.k2 = p.k2; rp.kp2 = p.kp2; rp.alpha2 = p.a2; rp.alphap2 = p.ap2;
  return true;
}
void tag_par(Verdict& v, const ParRec& p) {
  v.tag(p.k2 == 0 ? "k2=0" : p.kp2 == 0 ? "k2=1" : p.k2 < -1 ? "k2<-1" : p.k2 < 0 ? "k2 in(-1,0)" : p.kp2 < 1e-15 ? "kp2<1e-15" : p.kp2 < 1e-2 ? "k2~1" : "k2 in(0,1)");
  v.tag(p.a2 == 0 ? "alpha2=0" : p.ap2 == 0 ? "alpha2=1" : p.a2 < 0 ? "alpha2<0" : p.ap2 < 1e-2 ? "alpha2~1" : "alpha2 in(0,1)");
  v.tag(p.four ? "4-arg-ctor" : "2-arg-ctor");
}
double gen_phi() {
  switch (vf::g::wpick({35, 20, 20, 10, 5, 10})) {
    case 0: return vf::g::uni(-M_PI, M_PI);
    case 1: return vf::g::ulps((M_PI / 2) * (double)vf::g::irange(-8, 8), (int)vf::g::irange(-3, 3));
    case 2: return vf::g::uni(-160, 160);                      // +-50 periods
    case 3: return vf::g::sgn() * vf::g::loguni(1e-300, 1e-5);
    case 4: return 0.0;
    default: { double d = vf::g::loguni(1e-12, 0.1); return vf::g::sgn() * (M_PI / 2 - d) + M_PI * (double)vf::g::irange(-1, 1); }
  }
}
J gen_g2() {
  J r = J::obj();
  gen_par(r);
  r["kind"] = J::integer(vf::g::irange(0, 5));               // F E D Pi G H: incomplete forms of this one (all six complete ones)
  r["phi"] = J::num(gen_phi());
  r["ang"] = J::num(gg::angle());
  r["card"] = J::integer(vf::g::wpick({80, 5, 5, 5, 5}));      // 1..4: exact cardinal (sn, cn) pairs
  return r;
}
// tolerance [ulp of the scale] per kind (F E D Pi G H), calibrated; >= 4x the maximum seen
const double NLEG[6] = {16, 16, 24, 64, 64, 64};
const char* KN[6] = {"F", "E", "D", "Pi", "G", "H"};

// known finding C15-RJ-cancellation seen through Pi, G, H: RJ(cn^2, dn^2, 1, p), p = cn^2 + alpha'^2 sn^2
bool rj_cancels(double cn2, double dn2, double pp) {
  L sp = sqrtl((L)pp), pr = 1;
  for (double xi : {cn2, dn2, 1.0}) pr *= (sp - sqrtl((L)xi)) / (sp + sqrtl((L)xi));
  return 1 + pr < 0.25L;
}

Verdict check_g2_inner(const J& r);
// Known finding C15-G-alpha2-k2-rounded: G (complete and incomplete) is K + (alpha2 - k2) RJ/3 with alpha2 - k2 formed from the
// stored (rounded) k2 and alpha2.  With the four-argument constructor ("to enable accuracy to be maintained when k is very
// close to unity") the difference is really k'^2 - alpha'^2; when k2 and alpha2 round to the same number (or nearly) the
// term is lost: EllipticFunction(1, 1, 1e-40, 0).G(1.5707963267948959) is off by 9e-11 of its scale.
// Region, decided from the parameters alone: kind G, four-argument constructor, and the two differences disagree by > 0.1 %.
Verdict check_g2(const J& r) {
  Verdict v = check_g2_inner(r);
  // (a NaN or finite value where the integral diverges is the repaired defect "G() was NaN ... alphap2 = 0", never excused)
  if (v.failed() && v.msg.find("reference diverges") == std::string::npos && kn("C15-G-alpha2-k2-rounded")) {
    ParRec p; ref::ell::Par rp;
    if (get_par(r, p, rp) && r.geti("kind") == 4 && p.four &&
        fabsl(((L)p.a2 - (L)p.k2) - ((L)p.kp2 - (L)p.ap2)) > 1e-3L * fabsl((L)p.kp2 - (L)p.ap2)) {
      Verdict k; k.cls = v.cls; k.known("C15-G-alpha2-k2-rounded", "G with alpha2 - k2 formed from rounded parameters: " + v.msg); return k;
    }
  }
  return v;
}
Verdict check_g2_inner(const J& r) {
  Verdict v; ParRec p; ref::ell::Par rp;
  if (!get_par(r, p, rp)) { v.skip("parameters outside the documented domain / generated range"); return v; }
  double phi = r.getd("phi"), ang = r.getd("ang"); long long card = r.geti("card"), kind = r.geti("kind");
  if (!std::isfinite(phi) || std::fabs(phi) > 1e3 || !std::isfinite(ang) || std::fabs(ang) > 1e6 || card < 0 || card > 4 || kind < 0 || kind > 5) { v.skip("argument beyond generated range"); return v; }
  EF ef = p.four ? EF(p.k2, p.a2, p.kp2, p.ap2) : EF(p.k2, p.a2);
  tag_par(v, p); v.tag(std::string("kind-") + KN[kind]);
  v.that(ef.k2() == p.k2 && ef.kp2() == p.kp2 && ef.alpha2() == p.a2 && ef.alphap2() == p.ap2, "inspectors k2/kp2/alpha2/alphap2 do not return the constructor arguments");
  int K = (int)kind;
  bool rjbad = false;      // set when a comparison involving RJ in its cancellation regime fails
  auto cmp = [&](double lib, L ref, L scale, double n, const std::string& what, bool rjregime) {
    // scale >= |ref|: magnitude of the terms the value is (legitimately) composed of
    if (std::isinf((double)ref) || fabsl(ref) > 1.7e308L) { v.that(std::isinf(lib) && (lib > 0) == (ref > 0), what + ": reference diverges, library value finite or of the wrong sign"); return; }
    L err = fabsl((L)lib - ref), tol = n * EPS * scale + 4 * DBL_TRUE_MIN;
    if (rjregime) { if (!(err <= tol)) rjbad = true; return; }      // inside the regime: record failure only (kept out of the statistics)
    vle(v, err, tol, what.c_str());
  };
  // ---- complete integrals (Reset special cases included: k2 = 0, alpha2 = 0, k2 = 1, alpha2 = 1)
  // (the reference evaluates K, the chosen kind and, for E, D: all of F E D; the others are sampled by other records)
  L C[6]; bool okc = true, havec[6];
  for (int k = 0; k < 6; ++k) { havec[k] = k == 0 || k == K || (K == 1 && k == 2) || (K == 2 && k == 1); C[k] = 0; if (havec[k]) okc = okc && ref::ell::complete(rp, k, C[k]); }
  if (!okc) { v.skip("reference not converged (complete integrals)"); return v; }
  double libc[6] = {ef.K(), ef.E(), ef.D(), ef.Pi(), ef.G(), ef.H()};
  // Pi, G, H are formed from K and RJ: for alpha2 < 0 the two partly cancel; the legitimate scale is K (+ |X|)
  bool rjc = p.a2 != 0 && p.kp2 != 0 && p.ap2 != 0 && rj_cancels(0, p.kp2, p.ap2);
  L C0fin = std::isinf((double)C[0]) ? 0 : fabsl(C[0]);
  // k' -> 0 (complementary-parameter constructor): the AGM of the complete E (RG with two arguments) stops at a relative
  // difference 4e-9 and its neglected term carries a factor 2^n, n = number of AGM steps ~ log2(ln(1/k')): seen 26 ulp at k'^2 = 1e-40
  L legmul = (p.kp2 != 0 && p.kp2 < 1e-10) ? 8 : 1;
  for (int k = 0; k < 6; ++k) {
    if (!havec[k]) continue;
    if (k == 4 && p.ap2 == 0 && p.a2 == p.k2 && p.kp2 != 0 && std::isnan(libc[k])) {
      // known corner: G = K + (alpha2 - k2) RJ/3 with RJ = inf and alpha2 - k2 = 1 - 1 = 0 (both rounded; k'^2 > 0 given separately): 0 * inf = NaN
      // where the integral diverges to +inf
      if (kn("C15-G-alpha1-nan")) { v.known("C15-G-alpha1-nan", "G() is NaN instead of +inf for alpha2 = 1, k2 = 1 (rounded) with k'^2 > 0 given to the 4-argument constructor"); return v; }
    }
    L sc = fabsl(C[k]);
    if (k >= 3 && std::isfinite((double)C[0])) sc += fabsl(C[0]);
    cmp(libc[k], C[k], sc * legmul, NLEG[k], std::string("complete ") + KN[k] + " [abs/scale]", k >= 3 && rjc);
  }
  if (havec[2] && std::isfinite((double)C[0])) cmp(ef.KE(), (L)p.k2 * C[2], fabsl((L)p.k2 * C[2]), NLEG[2] + 2, "KE() = K - E = k2 D", false);
  v.nontrivial = true;
  if (v.failed()) return v;
  // ---- incomplete integral of the chosen kind, real argument
  bool bigphi = std::fabs(phi) >= M_PI / 2;
  v.tag(phi == 0 ? "phi=0" : std::fabs(phi) < 1e-5 ? "phi-tiny" : std::fabs(phi) < M_PI / 2 ? "|phi|<pi/2" : std::fabs(phi) < M_PI ? "|phi|<pi" : "phi-many-periods");
  double sn = std::sin(phi), cn = std::cos(phi);
  auto libinc = [&](double ph) { switch (K) { case 0: return ef.F(ph); case 1: return ef.E(ph); case 2: return ef.D(ph); case 3: return ef.Pi(ph); case 4: return ef.G(ph); default: return ef.H(ph); } };
  auto libsc = [&](double s_, double c_, double d_) { switch (K) { case 0: return ef.F(s_, c_, d_); case 1: return ef.E(s_, c_, d_); case 2: return ef.D(s_, c_, d_); case 3: return ef.Pi(s_, c_, d_); case 4: return ef.G(s_, c_, d_); default: return ef.H(s_, c_, d_); } };
  auto libdl = [&](double s_, double c_, double d_) { switch (K) { case 0: return ef.deltaF(s_, c_, d_); case 1: return ef.deltaE(s_, c_, d_); case 2: return ef.deltaD(s_, c_, d_); case 3: return ef.deltaPi(s_, c_, d_); case 4: return ef.deltaG(s_, c_, d_); default: return ef.deltaH(s_, c_, d_); } };
  bool div = std::isinf((double)C[K]);
  if (!(div && bigphi)) {
    L X, F0 = 0;
    if (ref::ell::incomplete(rp, K, phi, X) && !std::isinf((double)X)) {
      L sc = fabsl(X);
      // Pi, G, H = F-like term +- RJ term: the scale of the two terms is F over the reduced amplitude (finite also for k2 = 1)
      if (K >= 3 && cn != 0 && ref::ell::incomplete_sc(rp, 0, std::fabs(sn), std::fabs(cn), F0) && !std::isinf((double)F0)) sc += fabsl(F0);
      // whole periods are added as multiples of the complete integral, itself K +- RJ term
      if (K >= 3) sc += 2 * fabsl((L)std::round(phi / M_PI)) * C0fin;
      if (K >= 3 && cn == 0) sc += C0fin;
      bool reg = K >= 3 && p.a2 != 0 && (rj_cancels(cn * cn, (double)(p.kp2 + p.k2 * cn * cn), cn * cn + p.ap2 * sn * sn) || (rjc && bigphi));
      cmp(libinc(phi), X, sc * legmul, NLEG[K], std::string(KN[K]) + "(phi) [abs/scale]", reg);
    }
  } else v.tag("skip-divergent");
  // ---- the same in terms of (sn, cn, dn), and the periodic part
  switch (card) { case 1: sn = 0; cn = 1; break; case 2: sn = 1; cn = 0; break; case 3: sn = 0; cn = -1; break; case 4: sn = -1; cn = -0.0; break; default: break; }
  if (card) v.tag("cardinal-triple");
  double dn = ef.Delta(sn, cn);
  {
    L dref;
    if (ref::ell::Delta(rp, sn, cn, dref)) cmp(dn, dref, fabsl(dref), 4, "Delta(sn, cn)", false);
    bool atpole = cn == 0, back = std::signbit(cn);
    if (!(div && (atpole || back))) {
      L X, X0 = 0;
      if (ref::ell::incomplete_sc(rp, K, sn, cn, X) && !std::isinf((double)X)) {
        L sc = fabsl(X);
        bool have0 = K >= 3 && cn != 0 && ref::ell::incomplete_sc(rp, 0, std::fabs(sn), std::fabs(cn), X0) && !std::isinf((double)X0);
        if (have0) sc += fabsl(X0);
        if (K >= 3 && back) sc += 2 * C0fin;
        if (K >= 3 && cn == 0) sc += C0fin;
        bool reg = K >= 3 && p.a2 != 0 && ((cn != 0 && rj_cancels(cn * cn, dn * dn, cn * cn + p.ap2 * sn * sn)) || (rjc && (back || cn == 0)));
        // div: the complete integral is infinite (alpha2 = 1 or k2 = 1) and the value here is dominated by 1/cn; seen 4.2x the
        // ordinary law at cn = 1.8e-16 (k2 = alpha2 = 1, k'^2 = 1e-40), so 4x that
        cmp(libsc(sn, cn, dn), X, sc * legmul * (div ? 16 : 1), NLEG[K], std::string(KN[K]) + "(sn,cn,dn) [abs/scale]", reg);
        L dl;
        if (!div && sn != 0 && ref::ell::delta(rp, K, sn, cn, dl)) {
          // delta = X pi/(2 Xc) - phi: both terms up to pi/2; the cancellation scale of Pi, G, H enters through X/Xc
          L ratio = K >= 3 ? (fabsl(X) + (have0 ? fabsl(X0) : 0) + C0fin) / fabsl(C[K]) : 1;
          cmp(libdl(sn, cn, dn), dl, (L)(M_PI / 2) * std::max<L>(1, ratio) * legmul, NLEG[K] + 4, std::string("delta") + KN[K] + " [abs/scale]", reg || (K >= 3 && rjc));
        }
      }
    }
  }
  if (K == 1) {
    // ---- Ed (argument in degrees, whole turns kept)
    L X;
    if (ref::ell::incomplete_deg(rp, ref::ell::KE, ang, X)) cmp(ef.Ed(ang), X, fabsl(X) * legmul, NLEG[1] + 2, "Ed(ang) [abs/scale]", false);
    // ---- Einv: inverse of E(phi); conditioning d phi/d E = 1/Delta(phi)
    double x = ef.E(phi);
    L pref, dref;
    if (std::isfinite(x) && ref::ell::einv(rp, x, pref)) {
      double pr = (double)pref;
      if (ref::ell::Delta(rp, std::sin(pr), std::cos(pr), dref) && dref > 0) {
        double back = ef.Einv(x);
        // Einv stops Newton at |step| <= sqrt(0.01 eps): remaining error ~ step^2 |k2 sin cos| / Delta^2
        L newton = 2e-18L * fabsl((L)p.k2) / (dref * dref);
        L tol = 64 * EPS * (fabsl((L)x) / dref + fabsl(pref) + 1) + newton;     // seen 16.5 eps (|x|/Delta + |phi| + 1)
        if (tol < 1e-6L) {
          vle(v, fabsl((L)back - pref), tol, "Einv(x) vs inverse of the defining integral [rad]");
          if (p.kp2 != 0 || std::fabs(phi) < M_PI / 2)
            vle(v, fabsl((L)back - (L)phi), tol + NLEG[1] * EPS * fabsl((L)x) / dref, "Einv(E(phi)) = phi [rad]");
        } else v.tag("Einv-ill-conditioned-skipped");      // k' -> 0 near odd multiples of E(k): d phi/d E = 1/Delta unbounded
      }
    }
    // periodic inverse: E^-1(tau 2E/pi) - tau
    if (!card && sn != 0) {
      double de = ef.deltaEinv(sn, cn);
      L tau = atan2l(std::signbit(cn) ? -(L)sn : (L)sn, fabsl((L)cn));
      L xx = tau * C[1] / (M_PI / 2);
      L pref2, dref2;
      if (ref::ell::einv(rp, (double)xx, pref2)) {
        double pr = (double)pref2;
        // x was rounded to double: correct to first order, d phi = d x / Delta
        if (ref::ell::Delta(rp, std::sin(pr), std::cos(pr), dref2) && dref2 > 0) {
          L corr = (xx - (L)(double)xx) / dref2;
          L newton = 2e-18L * fabsl((L)p.k2) / (dref2 * dref2);
          L tol2 = 64 * EPS * (fabsl(xx) / dref2 + 2) + newton;
          if (tol2 < 1e-6L) vle(v, fabsl((L)de - (pref2 + corr - tau)), tol2, "deltaEinv [rad]");
          else v.tag("deltaEinv-ill-conditioned-skipped");
        }
      }
    }
  }
  if (rjbad && !v.failed()) {
    v.tag("RJ-cancellation-regime-failed");
    if (kn("C15-RJ-cancellation")) { Verdict k; k.cls = v.cls; k.known("C15-RJ-cancellation", "Pi/G/H: RJ(cn^2, dn^2, 1, cn^2 + alpha'^2 sn^2) evaluated in its cancellation regime"); return k; }
    v.that(false, "Pi/G/H wrong beyond tolerance (RJ cancellation regime)");
  }
  return v;
}

// ------------------------------------------------------------------------------------------------ C15.g3 Jacobi functions
J gen_g3() {
  J r = J::obj();
  double k2, kp2; bool four;
  gen_modulus(k2, kp2, four, false);
  r["k2"] = J::num(k2); r["kp2"] = J::num(kp2); r["alpha2"] = J::num(0.0); r["alphap2"] = J::num(1.0); r["four"] = J::integer(four);
  r["phi"] = J::num(gen_phi());
  double x;
  switch (vf::g::wpick({40, 30, 15, 15})) {
    case 0: x = vf::g::uni(-10, 10); break;
    case 1: x = vf::g::uni(-200, 200); break;
    case 2: x = vf::g::sgn() * (vf::g::coin(1, 4) ? vf::g::loguni(1e-300, 1e-3) : vf::g::loguni(1e-140, 1e-3)); break;
    default: x = 0; break;
  }
  r["x"] = J::num(x);
  r["mK"] = J::integer(vf::g::irange(-6, 6)); r["uK"] = J::integer(vf::g::irange(-3, 3));   // x2 = mK * K() +- ulps
  return r;
}
Verdict check_g3(const J& r) {
  Verdict v; ParRec p; ref::ell::Par rp;
  if (!get_par(r, p, rp) || p.a2 != 0) { v.skip("parameters outside the documented domain / generated range"); return v; }
  double phi = r.getd("phi"), x = r.getd("x"); long long mK = r.geti("mK"), uK = r.geti("uK");
  if (!std::isfinite(phi) || std::fabs(phi) > 1e3 || !std::isfinite(x) || std::fabs(x) > 1e4 || std::llabs(mK) > 50 || std::llabs(uK) > 64) { v.skip("argument beyond generated range"); return v; }
  EF ef = p.four ? EF(p.k2, 0, p.kp2, 1) : EF(p.k2, 0);
  tag_par(v, p);
  v.nontrivial = true;
  bool unit = p.k2 >= 0;                       // sncndn is documented for 0 <= k <= 1 only
  auto one = [&](double xx, L am, L sn, L cn, L dn, const char* src) {
    double s, c, d, a = ef.am(xx, s, c, d);
    // conditioning: x is a double: d am = Delta d x; the amplitude itself is a sum of |x|-sized terms
    L tam = 16 * EPS * (1 + fabsl(am) + fabsl((L)xx) * dn);
    L k2a = fabsl((L)p.k2);
    std::string S(src);
    // known finding: the descending Landen recurrence of am() takes asin(c sin(phi)/a) with c/a -> 1 - 2k' for k -> 1:
    // ill-conditioned near the quarter periods, error ~ eps / sqrt(k').  Inside the regime (k'^2 < 1e-4) the comparisons of
    // am and of sn, cn, dn derived from it only record failure (kept out of the worst-ratio statistics).
    bool nk1 = p.k2 > 0 && p.kp2 != 0 && p.kp2 < 1e-4, bad = false;
    auto cmp = [&](L err, L tol, const std::string& what) { if (nk1) { if (!(err <= tol)) bad = true; } else vle(v, err, tol, what.c_str()); };
    cmp(fabsl((L)a - am), tam, S + ": am(x) [rad]");
    v.that(ef.am(xx) == a, S + ": am(x) and am(x, sn, cn, dn) disagree");
    cmp(fabsl((L)s - sn), tam * fabsl(cn) + 4 * EPS, S + ": sn from am");
    cmp(fabsl((L)c - cn), tam * fabsl(sn) + 4 * EPS, S + ": cn from am");
    // dn = sqrt(k'^2 + k^2 cn^2) (= sqrt(1 + |k^2| sn^2) for k^2 < 0) is sqrt|k^2|-Lipschitz in cn (sn)
    cmp(fabsl((L)d - dn), tam * sqrtl(k2a) + 4 * EPS * dn, S + ": dn from am");
    vle(v, fabsl((L)s * s + (L)c * c - 1), 8 * EPS, (S + ": sn^2 + cn^2 = 1").c_str());
    vle(v, fabsl((L)d * d + (L)p.k2 * s * s - 1), 8 * EPS * (1 + k2a * (L)s * s), (S + ": dn^2 + k2 sn^2 = 1").c_str());
    if (bad) {
      v.tag("am-near-k1-failed");
      if (kn("C15-am-near-k1")) { v.known("C15-am-near-k1", "am(x) loses accuracy like eps/sqrt(k') near the quarter periods for k -> 1"); return; }
      v.that(false, S + ": am / sn / cn / dn wrong beyond tolerance for k -> 1 (regime of C15-am-near-k1)");
      return;
    }
    if (unit) {
      double s2, c2, d2; ef.sncndn(xx, s2, c2, d2);
      // known finding: Bulirsch's backward recurrence starts from cn/sn and squares it: overflow -> NaN for 0 < |x| < ~1e-154
      if (xx != 0 && std::fabs(xx) < 1e-150 && (std::isnan(s2) || std::isnan(c2) || std::isnan(d2))) {
        v.tag("sncndn-tiny-x");
        if (kn("C15-sncndn-tiny-x")) { v.known("C15-sncndn-tiny-x", "sncndn(x) returns NaN for 0 < |x| < 1e-154 (cn/sn overflows when squared)"); return; }
      }
      vle(v, fabsl((L)s2 - sn), tam * fabsl(cn) + 8 * EPS, (S + ": sncndn sn").c_str());
      vle(v, fabsl((L)c2 - cn), tam * fabsl(sn) + 8 * EPS, (S + ": sncndn cn").c_str());
      vle(v, fabsl((L)d2 - dn), tam * sqrtl(k2a) + 8 * EPS * dn, (S + ": sncndn dn").c_str());
      vle(v, fabsl((L)s2 * s2 + (L)c2 * c2 - 1), 8 * EPS, (S + ": sncndn sn^2 + cn^2 = 1").c_str());
      vle(v, fabsl((L)d2 * d2 + (L)p.k2 * s2 * s2 - 1), 16 * EPS, (S + ": sncndn dn^2 + k2 sn^2 = 1").c_str());
    }
  };
  // (i) inverse relation am(F(phi)) = phi, every k2 <= 1
  {
    double xd; L am, sn, cn, dn;
    bool div = p.kp2 == 0 && std::fabs(phi) >= M_PI / 2;
    if (!div && ref::ell::jacobi_from_phi(rp, phi, xd, am, sn, cn, dn) && std::fabs(xd) < 1e4 && (p.kp2 != 0 || std::fabs(xd) < 30)) {
      one(xd, am, sn, cn, dn, "am(F(phi))=phi");
      v.tag("inverse-relation-checked");
    } else v.tag("inverse-relation-skipped");
    if (v.failed()) return v;
  }
  // (ii) Boost jacobi_elliptic at arbitrary x, 0 <= k2 <= 1
  if (unit) {
    double xs[2] = {x, vf::g::ulps((double)mK * ef.K(), (int)uK)};
    for (int i = 0; i < 2; ++i) {
      double xx = xs[i];
      if (!std::isfinite(xx) || std::fabs(xx) > 1e4 || (p.kp2 == 0 && std::fabs(xx) > 30)) continue;
      L am, sn, cn, dn;
      if (!ref::ell::jacobi(rp, xx, am, sn, cn, dn)) { v.tag("boost-jacobi-refused"); continue; }
      one(xx, am, sn, cn, dn, i == 0 ? "Boost jacobi(x)" : "Boost jacobi(m K)");
      v.tag("boost-jacobi-checked");
      if (v.failed()) return v;
    }
  }
  return v;
}

// ------------------------------------------------------------------------------------------------ C15.ref self-validation
Verdict check_ref(const J& r) {
  Verdict v;
  long long part = r.geti("part"), nparts = r.geti("nparts");
  if (part < 0 || nparts < 1 || part >= nparts) { v.skip("bad record"); return v; }
  char rep[640];
  if (part == 0) {
    double w = ref::aux::selfcheck(rep, sizeof rep);
    v.tag("aux");
    vle(v, w, 1e-28, "REFERENCE SELF-VALIDATION (oracle, not library) aux: quadrature vs Boost / closed forms, relative");
    if (v.failed()) { v.msg += std::string(" | ") + rep; return v; }
  }
  double w = ref::ell::selfcheck(rep, sizeof rep, (int)part, (int)nparts);
  v.tag("ell");
  vle(v, w, 1e-28, "REFERENCE SELF-VALIDATION (oracle, not library) ell: Boost vs defining integrals, relative");
  if (v.failed()) v.msg += std::string(" | ") + rep;
  return v;
}
void enum_ref(vf::EnumCtx& c) {
  J r = J::obj(); r["part"] = J::integer(c.shard); r["nparts"] = J::integer(c.nshards);
  c.emit(r);
  c.exhaustive = true;
}

// ------------------------------------------------------------------------------------------------ registration
vf::Reg ra({"C15.a", "Convert/ToAuxiliary/FromAuxiliary (AuxAngle) for a generated (ellipsoid b/a in [0.01,100] or |f|<=1/150, pair of the 36, method, tangent 1e-300..1e300, quadrant) vs 50-digit closed forms / integrals; non-trivial: from != to; distinct by record hash", 0.24,
            [] { return rc::gen::exec([] { return gen_conv(false, false); }); }, check_a, nullptr});
vf::Reg ra2({"C15.a2", "degree-valued Convert and Ellipsoid latitude wrappers vs reference; non-trivial: from != to and angle not a multiple of 90", 0.08,
             [] { return rc::gen::exec([] { return gen_a2(); }); }, check_a2, nullptr});
vf::Reg rb({"C15.b", "round trip Convert(b->a, Convert(a->b, zeta)) = zeta, series and exact; non-trivial: from != to", 0.08,
            [] { return rc::gen::exec([] { J r = gen_conv(false, false); if (r.geti("meth") == 2) r["meth"] = J::integer(1); return r; }); }, check_b, nullptr});
vf::Reg rc_({"C15.c", "series vs exact Convert for |f| <= 1/150 (weighted to |f| = 1/150); non-trivial: from != to", 0.12,
             [] { return rc::gen::exec([] { return gen_conv(true, false); }); }, check_c, nullptr});
vf::Reg rd({"C15.d", "oddness (bit-exact), monotonicity on generated pairs (ulps apart .. far apart), fixed points 0 and +-90 (all sign combinations, degree entry points), quadrant kept; non-trivial: from != to", 0.10,
            [] { return rc::gen::exec([] { return gen_d(); }); }, check_d, nullptr});
vf::Reg re({"C15.e", "derivative returned by ToAuxiliary (incl. its limits at the pole and the equator) vs 50-digit derivative; RectifyingRadius, AuthalicRadiusSquared series & exact", 0.08,
            [] { return rc::gen::exec([] { return gen_e(); }); }, check_e, nullptr});
vf::Reg rf({"C15.f", "every Ellipsoid inspector at a generated (a, f, phi, azi) vs definition; flattening/eccentricity conversions vs definition and as mutual inverses; Area/QuarterMeridian vs Geodesic, GeodesicExact, Rhumb; non-trivial: f != 0", 0.08,
            [] { return rc::gen::exec([] { return gen_f(); }); }, check_f, nullptr});
vf::Reg rg1({"C15.g1", "Carlson RF RC RD RG RJ (arguments log-uniform, equal/zero/ulp-close arguments) vs Boost.Math at 50 digits; symmetry, homogeneity (scale 4^k), closed forms for equal arguments", 0.08,
             [] { return rc::gen::exec([] { return gen_g1(); }); }, check_g1, nullptr});
vf::Reg rg2({"C15.g2", "EllipticFunction complete and incomplete F E D Pi G H (real argument over +-50 periods, (sn,cn,dn) form incl. cardinal triples), delta*, Ed, Einv, for k2 in (-1e6,1], alpha2 in (-1e4,1] incl. 0, 1, 1-ulp and the complementary-parameter constructor, vs the defining integrals (50-digit quadrature)", 0.05,
             [] { return rc::gen::exec([] { return gen_g2(); }); }, check_g2, nullptr});
vf::Reg rg3({"C15.g3", "am, sncndn: inverse relation am(F(phi)) = phi for every k2 <= 1, Boost jacobi_elliptic for 0 <= k2 <= 1 (x over +-60 periods and at multiples of K +- ulps), identities", 0.05,
             [] { return rc::gen::exec([] { return gen_g3(); }); }, check_g3, nullptr});
vf::Reg rr({"C15.ref", "self-validation of the reference models on a grid (Boost.Math vs defining integrals vs closed forms, all at 50 digits): must agree to 1e-28", 0.0,
            nullptr, check_ref, enum_ref});

}  // namespace

VF_MAIN
