#!/bin/bash
# usage: tools_mut.sh <name> <Cxx> <python-expr-file-or-patch> [extra check args]
# makes a scratch copy of /repo (src include tools), applies a patch file (-p1) or runs a python script in it,
# runs the check against it, prints the tail, removes the copy.
name=$1; prop=$2; mut=$3; shift 3
d=/tmp/mut/$name; rm -rf $d; mkdir -p $d; cp -r /repo/src /repo/include /repo/tools $d/
if [[ "$mut" == *.diff || "$mut" == *.patch ]]; then (cd $d && patch -p1 -s < $mut) || { echo PATCH FAILED; exit 9; }
else (cd $d && python3 $mut) || { echo MUT SCRIPT FAILED; exit 9; }; fi
diff -rq /repo/src $d/src | head -3
VERIF_REPO=$d python3 /verif/check.py $prop --tier quick "$@" 2>&1 | grep -v "^    #\|^built\|^KNOWN" | tail -${TAILN:-6} | cut -c1-260
rm -rf $d
