// R-TM: reference Gauss-Krueger (transverse Mercator) mapping, from the definitions.
//
// Definition used.  With colatitude theta = pi/2 - phi, isometric latitude
//     psi(theta) = -ln tan(theta/2) - E(cos theta),   E(x) = e atanh(e x)   (e^2 = f(2-f), any sign)
// and meridian distance from the equator  M(phi) = a(1-e^2) Int_0^phi (1 - e^2 sin^2 t)^(-3/2) dt,
// the Gauss-Krueger map is the analytic continuation
//     y + i x = k0 * W(zeta),   W = M o psi^{-1},   zeta = psi + i lambda .
// Its derivative is  dW/dzeta = N cos(phi_c) = a sin(theta_c)/sqrt(1 - e^2 cos^2 theta_c), so
//     convergence gamma = -arg(dW/dzeta),  scale k = k0 |dW/dzeta| / (N(phi) cos(phi))
// and  d ln W'/d zeta = -cos(theta_c)  (conditioning of gamma and k).
//
// (a) definitional: theta_c is followed from the real colatitude (lambda = 0) along
//     zeta = psi + i s, s = 0..lambda, by predictor + complex Newton (steps limited by the distance
//     to the branch point, so the principal sheet is followed by construction);  M(theta_c) by
//     complex Gauss-Legendre quadrature (32/64/128 nodes, long double) on the straight line
//     0..theta_c.  Near and beyond the branch longitude on the equator side the path is re-routed
//     (vertical leg at a safe psi, then a horizontal leg on which W' is integrated panel-wise).
//     The same horizontal-leg integration crosses the equator between the branch point and 90 deg
//     and so gives the *extended* sheet of TransverseMercatorExact (extendp) for lat < 0.
// (b) Krueger series to order 30 (frozen copy of the doc table, ref/data/tmseries30.txt), evaluated
//     in long double with angle-addition recurrences (no Clenshaw); its tail gives the truncation
//     bound of a 6th-order series.
// Symmetries used (mathematical facts of W: real on the real axis, odd):  lat -> -lat : (x,-y,-gamma,k);
// dlon -> -dlon : (-x,y,-gamma,k);  and, since Re W = Mq on lambda = pi/2 (the integrand of M is
// purely imaginary on theta = -i s), Schwarz reflection gives the far side:
// lambda -> pi - lambda : (x, 2 Mq k0 - y, pi - gamma, k).
//
// Shares nothing with GeographicLib: no 6th-order tables, no Clenshaw sums, no taupf/tauf, no Lee /
// elliptic-function formulation.  Never reads /repo at run time.
#pragma once
#include <cmath>
#include <complex>
#include <cstdio>
#include <cstdlib>
#include <cstring>
#include <stdexcept>
#include <string>
#include <vector>

namespace rtm {

typedef long double L;
typedef std::complex<L> C;
static const L PI = 3.14159265358979323846264338327950288L;
static const L DEG = PI / 180;
static const L EPSL = 1.0842021724855044e-19L;   // 2^-63

// ------------------------------------------------------------------ Gauss-Legendre rules on [0,1]
struct GLRule { int n; std::vector<L> u, w; };
inline const GLRule& gl(int n) {
  static GLRule rules[8]; static int used = 0;
  for (int i = 0; i < used; ++i) if (rules[i].n == n) return rules[i];
  if (used >= 8) throw std::runtime_error("rtm::gl: too many rules");
  GLRule& r = rules[used]; r.n = n; r.u.resize(n); r.w.resize(n);
  for (int i = 0; i < n; ++i) {
    L x = cosl(PI * (i + 0.75L) / (n + 0.5L)), dp = 1;
    for (int it = 0; it < 100; ++it) {
      L p0 = 1, p1 = x;
      for (int k = 2; k <= n; ++k) { L p2 = ((2 * k - 1) * x * p1 - (k - 1) * p0) / k; p0 = p1; p1 = p2; }
      dp = n * (x * p1 - p0) / (x * x - 1);
      L dx = p1 / dp; x -= dx;
      if (fabsl(dx) < 1e-21L) break;
    }
    { L p0 = 1, p1 = x; for (int k = 2; k <= n; ++k) { L p2 = ((2 * k - 1) * x * p1 - (k - 1) * p0) / k; p0 = p1; p1 = p2; }
      dp = n * (x * p1 - p0) / (x * x - 1); }
    r.u[i] = (1 + x) / 2; r.w[i] = 1 / ((1 - x * x) * dp * dp);   // weight for [0,1] = (2/((1-x^2)P'^2))/2
  }
  ++used; return r;
}

// ------------------------------------------------------------------ frozen Krueger table
struct Krueger30 {
  static const int N = 30;
  L alp[N + 1][N + 1], bet[N + 1][N + 1], A[N + 1];   // [j][k] = coefficient of n^k
  static L parse_int(const char*& p) {
    L v = 0; while (*p >= '0' && *p <= '9') { v = v * 10 + (*p - '0'); ++p; } return v;
  }
  static std::string data_path() {
    if (const char* e = std::getenv("VF_REF_DATA")) return std::string(e) + "/tmseries30.txt";
    std::string f = __FILE__;            // .../ref/tm.hpp
    size_t s = f.rfind('/');
    return (s == std::string::npos ? std::string(".") : f.substr(0, s)) + "/data/tmseries30.txt";
  }
  Krueger30() {
    std::memset(alp, 0, sizeof alp); std::memset(bet, 0, sizeof bet); std::memset(A, 0, sizeof A);
    std::string path = data_path();
    FILE* fp = std::fopen(path.c_str(), "r");
    if (!fp) { std::fprintf(stderr, "rtm: cannot open %s\n", path.c_str()); std::abort(); }
    char line[512]; int cnt = 0;
    while (std::fgets(line, sizeof line, fp)) {
      if (line[0] == '#' || line[0] == '\n') continue;
      char name[16]; int j, k, off = 0;
      if (std::sscanf(line, "%15s %d %d %n", name, &j, &k, &off) < 3) continue;
      const char* p = line + off; bool neg = false;
      if (*p == '-') { neg = true; ++p; }
      L num = parse_int(p); L den = 1; if (*p == '/') { ++p; den = parse_int(p); }
      L v = (neg ? -num : num) / den;
      if (j < 0 || j > N || k < 0 || k > N) continue;
      if (!std::strcmp(name, "A")) A[k] = v; else if (!std::strcmp(name, "alpha")) alp[j][k] = v; else if (!std::strcmp(name, "beta")) bet[j][k] = v; else continue;
      ++cnt;
    }
    std::fclose(fp);
    if (cnt != 16 + 465 + 465) { std::fprintf(stderr, "rtm: %s has %d entries, expected 946\n", path.c_str(), cnt); std::abort(); }
  }
  static const Krueger30& get() { static Krueger30 k; return k; }
  // sum_{k=j}^{ord} c[j][k] n^k
  static L poly(const L* c, int j, int ord, L n) { L s = 0; for (int k = ord; k >= j; --k) s = s * n + c[k]; return s * powl(n, j); }
};

struct Out {
  bool ok = false; const char* why = "";
  L x = 0, y = 0, gamma = 0, k = 0;   // metres, metres, degrees, dimensionless
  L cond = 0;        // |cos theta_c| = |d ln W'/d zeta|
  L err = 0;         // estimated absolute error of (x,y) [m] from the quadrature comparisons
  bool ysign_free = false;   // lat == 0 on the far side: y is +-(value), sign is a convention
  bool rerouted = false;
};

struct SeriesOut {
  bool ok = false;
  L x = 0, y = 0, gamma = 0, k = 0;
  L etap = 0;        // Gauss-Schreiber eta' (>= 0 in the folded domain)
  L tail6 = 0;       // bound on |W_30 - W_6| [m]: truncation of a 6th-order series (incl. the b1 difference)
  L dtail6 = 0;      // same for the derivative factor (relative; bounds both d ln k and d gamma [rad])
  L tail30 = 0;      // estimate of the truncation of the 30th-order series itself [m]
  L dtail30 = 0;
  L amp = 0;         // 1 + sum 2j|alpha_j|cosh(2j eta'): round-off amplification of the derivative sum
};

class TM {
public:
  L a, f, k0, e2, n, b, es;   // es = sqrt(|e2|)
  bool prolate;
  L Mq;                       // quarter meridian (no k0)
  L lamb;                     // f >= 0: branch longitude (1-e) pi/2 [rad];  f < 0: pi/2
  L psib;                     // f < 0: psi of the branch point on the 90-degree meridian (q pi/2); else 0
  L al30[31], al6[31], be30[31], be6[31], A30, A6;

  TM(L a_, L f_, L k0_) : a(a_), f(f_), k0(k0_) {
    e2 = f * (2 - f); n = f / (2 - f); b = a * (1 - f); es = sqrtl(fabsl(e2)); prolate = e2 < 0;
    lamb = prolate ? PI / 2 : (1 - es) * PI / 2;
    psib = prolate ? es * PI / 2 : 0;
    // quarter meridian: real Gauss-Legendre, 64 nodes on [0, pi/2]
    const GLRule& g = gl(64); L s = 0;
    for (int i = 0; i < g.n; ++i) { L t = g.u[i] * PI / 2, c = cosl(t), w = 1 - e2 * c * c; s += g.w[i] / (w * sqrtl(w)); }
    Mq = a * (1 - e2) * s * PI / 2;
    const Krueger30& K = Krueger30::get();
    for (int j = 1; j <= 30; ++j) {
      al30[j] = Krueger30::poly(K.alp[j], j, 30, n); be30[j] = Krueger30::poly(K.bet[j], j, 30, n);
      al6[j] = j <= 6 ? Krueger30::poly(K.alp[j], j, 6, n) : 0; be6[j] = j <= 6 ? Krueger30::poly(K.bet[j], j, 6, n) : 0;
    }
    al30[0] = al6[0] = be30[0] = be6[0] = 0;
    L s30 = 0, s6 = 0;
    for (int k = 30; k >= 0; --k) { s30 = s30 * n + K.A[k]; s6 = s6 * n + (k <= 6 ? K.A[k] : 0); }
    A30 = a / (1 + n) * s30; A6 = a / (1 + n) * s6;
  }

  // E(x) = e atanh(e x), either sign of e2
  C E(C x) const {
    if (e2 == 0) return C(0, 0);
    if (!prolate) return es * std::atanh(es * x);
    return -es * std::atan(es * x);
  }
  L Er(L x) const { if (e2 == 0) return 0; return prolate ? -es * atanl(es * x) : es * atanhl(es * x); }
  C psi(C th) const { return -std::log(std::tan(th / L(2))) - E(std::cos(th)); }
  L psir(L th) const { return -logl(tanl(th / 2)) - Er(cosl(th)); }
  C dpsi(C th) const { C c = std::cos(th); return -(1 - e2) / (std::sin(th) * (L(1) - e2 * c * c)); }
  // W'(zeta)/a with continuity of the square root along a path (sprev = previous sqrt, 0 for principal)
  mutable L dmin_seen = 1;   // smallest |1 - e2 cos^2 theta| met by wprime() since it was last reset
  C wprime(C th, C& sprev) const {
    C c = std::cos(th); C d = L(1) - e2 * c * c; C s = std::sqrt(d);
    L ad = std::abs(d); if (ad < dmin_seen) dmin_seen = ad;
    if (sprev != C(0, 0) && (s.real() * sprev.real() + s.imag() * sprev.imag()) < 0) s = -s;
    sprev = s; return std::sin(th) / s;
  }
  L Ncos(L th) const { L c = cosl(th); return a * sinl(th) / sqrtl(1 - e2 * c * c); }   // N cos(phi)

  // distance in the zeta plane to the nearest singular point of W
  L sdist(C z) const {
    if (!prolate) return std::min(std::abs(z - C(0, lamb)), std::abs(z - C(0, PI - lamb)));
    return std::min(std::abs(z - C(psib, PI / 2)), std::abs(z - C(-psib, PI / 2)));
  }

  // Newton corrector for psi(th) = z from th; false if it does not contract
  bool newton(C& th, C z, int maxit = 12) const {
    L last = 1e300L;
    for (int it = 0; it < maxit; ++it) {
      C d = (psi(th) - z) / dpsi(th);
      L ad = std::abs(d), at = std::abs(th);
      if (!(ad == ad) || !(at < 1e4L)) return false;
      th -= d;
      if (ad <= 4e-19L * at * (1 + std::abs(z))) return true;
      if (it >= 3 && ad > last) return ad <= 1e-16L * at * (1 + std::abs(z));   // stagnation at round-off level
      last = ad;
    }
    return false;
  }

  // follow theta_c along the straight segment z0 -> z1 (theta at z0 given)
  bool track(C& th, C z0, C z1) const {
    C dir = z1 - z0; L len = std::abs(dir); if (len == 0) return true; dir /= len;
    L s = 0; int guard = 0;
    while (s < len) {
      if (++guard > 4000) return false;
      C z = z0 + dir * s; L d = sdist(z);
      if (d < 1e-7L) return false;
      L h = std::min(std::min(len - s, 0.25L), 0.3L * d);
      for (int tries = 0;; ++tries) {
        if (tries > 40) return false;
        C zn = (s + h >= len) ? z1 : z + dir * h;
        C pred = th + (zn - z) / dpsi(th);
        C tn = pred;
        bool ok = newton(tn, zn);
        L jump = std::abs(tn - pred), stepth = std::abs(pred - th);
        if (ok && jump <= 0.5L * stepth + 1e-15L * std::abs(th)) { th = tn; s = (s + h >= len) ? len : s + h; break; }
        h /= 2;
      }
    }
    return true;
  }

  // M(theta_c)/a relative to the pole:  Int_0^{theta_c} (1-e2)(1-e2 cos^2 t)^(-3/2) dt  (complex, straight line)
  C polar_integral(C th, L& relerr) const {
    auto quad = [&](int nn) {
      const GLRule& g = gl(nn); C s(0, 0);
      for (int i = 0; i < g.n; ++i) { C c = std::cos(th * g.u[i]); C w = L(1) - e2 * c * c; s += g.w[i] / (w * std::sqrt(w)); }
      return s * th * (1 - e2);
    };
    C i32 = quad(32), i64 = quad(64);
    L sc = std::max(std::abs(i64), 1e-4000L);
    relerr = std::abs(i64 - i32) / sc;
    if (relerr <= 2e-19L) return i64;
    C i128 = quad(128);
    relerr = std::abs(i128 - i64) / std::max(std::abs(i128), 1e-4000L);
    return i128;
  }

  // Int W'(zeta) dzeta / a along the straight segment z0 -> z1, tracking theta (in: theta at z0; out: at z1)
  bool integrate(C& th, C& sq, C z0, C z1, C& sum, L& abserr) const {
    C dir = z1 - z0; L len = std::abs(dir); sum = C(0, 0); abserr = 0; if (len == 0) return true; dir /= len;
    const GLRule& g16 = gl(16); const GLRule& g10 = gl(10);
    L s = 0; int guard = 0;
    while (s < len) {
      if (++guard > 4000) return false;
      C z = z0 + dir * s; L d = sdist(z);
      if (d < 1e-6L) return false;
      L h = std::min(std::min(len - s, 0.25L), 0.25L * d);
      C tcur = th, scur = sq, p16(0, 0), p10(0, 0);
      // nodes in increasing order; Newton from the previous node's solution
      for (int i = g16.n - 1; i >= 0; --i) {   // gl() stores nodes from u ~ 1 down to u ~ 0
        C zn = z + dir * (h * g16.u[i]);
        C guess = tcur + (zn - (i == g16.n - 1 ? z : z + dir * (h * g16.u[i + 1]))) / dpsi(tcur);
        if (!newton(guess, zn)) return false;
        tcur = guess; p16 += g16.w[i] * wprime(tcur, scur);
      }
      C tcur2 = th, scur2 = sq;
      for (int i = g10.n - 1; i >= 0; --i) {
        C zn = z + dir * (h * g10.u[i]);
        C guess = tcur2 + (zn - (i == g10.n - 1 ? z : z + dir * (h * g10.u[i + 1]))) / dpsi(tcur2);
        if (!newton(guess, zn)) return false;
        tcur2 = guess; p10 += g10.w[i] * wprime(tcur2, scur2);
      }
      sum += p16 * dir * h; abserr += std::abs(p16 - p10) * h;
      // end of panel
      C ze = (s + h >= len) ? z1 : z + dir * h;
      C guess = tcur + (ze - (z + dir * (h * g16.u[0]))) / dpsi(tcur);
      if (!newton(guess, ze)) return false;
      th = guess; (void)wprime(th, scur); sq = scur;
      s = (s + h >= len) ? len : s + h;
    }
    return true;
  }

  // meridian distance from the equator (no k0), signed
  L meridian(double lat) const {
    L th = (90 - (L)fabs(lat)) * DEG; L re;
    L v = Mq - a * polar_integral(C(th, 0), re).real();
    return std::signbit(lat) ? -v : v;
  }

  // core: theta real in (0, pi/2] (colatitude), lam in [0, pi/2], target psi = sg * psi(theta) with
  // sg = +1 (standard sheet) or -1 (extended sheet: reached from the north across the equator at lam)
  Out core(L th, L lam, int sg) const {
    Out o;
    L ps = psir(th);                       // >= 0
    C target(sg * ps, lam);
    if (sdist(target) < 1e-6L) { o.why = "within 1e-6 of the branch point"; return o; }
    if (prolate && sg > 0 && ps <= psib && lam >= PI / 2 - 1e-12L) { o.why = "prolate: on the cut of the 90-degree meridian"; return o; }
    // starting colatitude / psi of the vertical leg
    L lsing = prolate ? PI / 2 : lamb;
    L psafe = psib + 0.35L;
    bool reroute = sg < 0 || (ps < psafe && lam > lsing - 0.35L);
    L ths = th, pss = ps;
    if (reroute && ps < psafe) {
      pss = psafe; ths = 2 * atanl(expl(-pss));
      for (int it = 0; it < 50; ++it) { L d = (psir(ths) - pss) / dpsi(C(ths, 0)).real(); ths -= d; if (fabsl(d) < 1e-19L) break; }
    }
    C thc(ths, 0);
    if (!track(thc, C(pss, 0), C(pss, lam))) { o.why = "Newton tracking failed on the vertical leg"; return o; }
    L re;
    C W = C(Mq / a, 0) - polar_integral(thc, re);
    // quadrature in the theta plane gives  Int_0^theta rho/a dtheta; dM = -rho dtheta, and M(phi_c): y + i x
    // with theta_c in the 4th quadrant  Im(M) = -Im(integral) >= 0
    L err = re * std::abs(W) * a;
    C sq(0, 0); dmin_seen = 1; (void)wprime(thc, sq);
    if (reroute) {
      C add; L ae;
      if (!integrate(thc, sq, C(pss, lam), target, add, ae)) { o.why = "W' path integration failed"; return o; }
      W += add; err += ae * a; o.rerouted = true;
    }
    C wp = wprime(thc, sq);               // W'/a at the target
    o.x = k0 * a * W.imag(); o.y = k0 * a * W.real();
    o.gamma = -std::arg(wp) / DEG;
    o.k = k0 * a * std::abs(wp) / Ncos(th);
    o.cond = std::abs(std::cos(thc));
    o.err = k0 * err + 8 * EPSL * k0 * a * (std::abs(W) + 1);
    // near the singularity 1 - e^2 cos^2 theta = 0 (extended sheet, far from the equator) psi is evaluated through
    // atanh(e cos theta) with e cos theta -> 1: absolute error ~ e eps/(2 D) in psi, i.e. a e eps/(2 D) on the ground
    o.err += o.k * 4 * a * es * EPSL / dmin_seen;
    o.ok = true;
    return o;
  }

  // (a) full standard-sheet forward: lat in [-90,90] (double), dlon any finite (degrees, reduced here)
  Out forward(double lat, L dlon) const {
    Out o;
    if (!(fabs(lat) <= 90) || !std::isfinite((double)dlon)) { o.why = "bad input"; return o; }
    dlon = remainderl(dlon, 360.0L);
    int sl = std::signbit(lat) ? -1 : 1, so = std::signbit(dlon) ? -1 : 1;
    L alat = fabs(lat), lam = fabsl(dlon);
    bool back = lam > 90; if (back) lam = 180 - lam;
    L th = (90 - alat) * DEG;
    if (alat == 90) {
      o.ok = true; o.x = 0; o.y = k0 * Mq; o.k = k0; o.gamma = lam; o.cond = 1; o.err = 8 * EPSL * k0 * a;
    } else {
      if (back && prolate && psir(th) <= psib * (1 + 1e-9L) + 1e-12L) { o.why = "prolate far side below the branch latitude"; return o; }
      o = core(th, lam * DEG, +1);
      if (!o.ok) return o;
    }
    if (back) { o.y = 2 * k0 * Mq - o.y; o.gamma = 180 - o.gamma; if (alat == 0) o.ysign_free = true; }
    o.y *= sl; o.x *= so; o.gamma *= sl * so;
    return o;
  }

  // extended sheet (TransverseMercatorExact with extendp): lat in (-90, 0), dlon in [90(1-e), 90]; f > 0
  Out forward_ext(double lat, L dlon) const {
    Out o;
    if (!(e2 > 0) || !(lat < 0) || !(lat > -90) || !(dlon * DEG >= lamb) || !(dlon <= 90)) { o.why = "outside the extended-sheet domain"; return o; }
    L th = (90 + (L)lat) * DEG;
    return core(th, dlon * DEG, -1);
  }

  // (b) Krueger series to order 30 on the folded domain; full-domain wrapper below
  SeriesOut series_core(L th, L lam) const {
    SeriesOut r;
    C t = tanl(th / 2) * expl(Er(cosl(th))) * C(cosl(lam), -sinl(lam));   // exp(-zeta)
    C ts = L(2) * std::atan(t);                                         // pi/2 - zeta'
    r.etap = -ts.imag();
    C s1 = std::sin(L(2) * ts), c1 = std::cos(L(2) * ts), sj = s1, cj = c1;
    C Th = ts, D(1, 0);
    L ch1 = coshl(2 * r.etap), sh1 = sinhl(2 * r.etap), chj = ch1, shj = sh1;
    L t6 = 0, d6 = 0, amp = 1, term[31], dterm[31];
    for (int j = 1; j <= 30; ++j) {
      L sg = (j & 1) ? -1 : 1;
      Th += sg * al30[j] * sj; D += sg * 2 * j * al30[j] * cj;
      term[j] = fabsl(al30[j]) * chj; dterm[j] = 2 * j * term[j];
      t6 += fabsl(al30[j] - al6[j]) * chj; d6 += 2 * j * fabsl(al30[j] - al6[j]) * chj; amp += 2 * j * fabsl(al30[j]) * chj;
      C sn = sj * c1 + cj * s1, cn = cj * c1 - sj * s1; sj = sn; cj = cn;
      L chn = chj * ch1 + shj * sh1, shn = shj * ch1 + chj * sh1; chj = chn; shj = shn;
    }
    // geometric extrapolation of the neglected terms j > 30
    L rr = term[28] > 0 ? sqrtl(term[30] / term[28]) : 0;
    L t30 = rr < 0.9L ? term[30] * rr / (1 - rr) : HUGE_VALL;
    L rd = dterm[28] > 0 ? sqrtl(dterm[30] / dterm[28]) : 0;
    L d30 = rd < 0.9L ? dterm[30] * rd / (1 - rd) : HUGE_VALL;
    C W = A30 * (C(PI / 2, 0) - Th);
    C wp = A30 * D * std::sin(ts);
    r.x = k0 * W.imag(); r.y = k0 * W.real();
    r.gamma = -std::arg(wp) / DEG; r.k = k0 * std::abs(wp) / Ncos(th);
    r.tail30 = k0 * A30 * t30; r.dtail30 = d30 / std::max(std::abs(D), 1e-300L);
    r.tail6 = k0 * (A30 * t6 + fabsl(A30 - A6) * (PI / 2 + std::abs(Th))) + r.tail30;
    r.dtail6 = (d6 + d30) / std::max(std::abs(D), 1e-300L) + fabsl(A30 - A6) / A30;
    r.amp = amp / std::max(std::abs(D), 1e-300L);
    r.ok = std::isfinite((double)r.x) && std::isfinite((double)r.y);
    return r;
  }
  SeriesOut forward_series(double lat, L dlon) const {
    SeriesOut r;
    if (!(fabs(lat) <= 90) || !std::isfinite((double)dlon)) return r;
    dlon = remainderl(dlon, 360.0L);
    int sl = std::signbit(lat) ? -1 : 1, so = std::signbit(dlon) ? -1 : 1;
    L alat = fabs(lat), lam = fabsl(dlon);
    bool back = lam > 90; if (back) lam = 180 - lam;
    if (alat == 90) { r.ok = true; r.x = 0; r.y = k0 * A30 * PI / 2; r.k = k0; r.gamma = lam; r.amp = 1;
      L t6 = 0; for (int j = 1; j <= 30; ++j) t6 += fabsl(al30[j] - al6[j]); r.tail6 = k0 * (A30 * t6 + fabsl(A30 - A6) * PI); }
    else r = series_core((90 - alat) * DEG, lam * DEG);
    if (back) { r.y = 2 * k0 * A30 * PI / 2 - r.y; r.gamma = 180 - r.gamma; }
    r.y *= sl; r.x *= so; r.gamma *= sl * so;
    return r;
  }

  // truncation bound of the 6th-order *reverse* series at grid point (x,y): bound on |zeta'_30 - zeta'_6|
  // (radians on the conformal sphere; times a = ground distance bound) and the same for the derivative factor
  void reverse_tail(L x, L y, L& tail6, L& dtail6, L& tail30) const {
    L eta = fabsl(x) / (k0 * A30);
    L ch1 = coshl(2 * eta), sh1 = sinhl(2 * eta), chj = ch1, shj = sh1, t6 = 0, d6 = 0, term[31];
    for (int j = 1; j <= 30; ++j) {
      term[j] = fabsl(be30[j]) * chj;
      t6 += fabsl(be30[j] - be6[j]) * chj; d6 += 2 * j * fabsl(be30[j] - be6[j]) * chj;
      L chn = chj * ch1 + shj * sh1, shn = shj * ch1 + chj * sh1; chj = chn; shj = shn;
    }
    L rr = term[28] > 0 ? sqrtl(term[30] / term[28]) : 0;
    tail30 = rr < 0.9L ? term[30] * rr / (1 - rr) : HUGE_VALL;
    tail6 = t6 + tail30 + fabsl(A30 - A6) / A30 * (fabsl(y) / (k0 * A30) + eta);
    dtail6 = d6 + 31 * 2 * tail30;
    (void)y;
  }
};

// ------------------------------------------------------------------ polar stereographic (closed form)
// Snyder (21-33),(15-9),(21-32) in colatitude form; k0 = scale at the pole; false origin not included.
// northp: projection centred on the north pole.  lat in [-90,90], lon degrees.
struct PSOut { L x, y, gamma, k; };
inline PSOut polar_stereo(L a, L f, L k0, bool northp, double lat, double lon) {
  L e2 = f * (2 - f), e = sqrtl(fabsl(e2));
  L th = northp ? (90 - (L)lat) * DEG : (90 + (L)lat) * DEG;     // colatitude from the projection pole
  L c = cosl(th);
  L Ee = e2 == 0 ? 0 : (e2 > 0 ? e * atanhl(e * c) : -e * atanl(e * c));
  L E1 = e2 == 0 ? 0 : (e2 > 0 ? e * atanhl(e) : -e * atanl(e));
  // t = tan(th/2) ((1+e c)/(1-e c))^(e/2) = tan(th/2) exp(E(c));  rho = 2 a k0 t / sqrt((1+e)^(1+e)(1-e)^(1-e))
  // sqrt((1+e)^(1+e)(1-e)^(1-e)) = sqrt(1-e2) exp(E(1))
  L t = tanl(th / 2) * expl(Ee);
  L rho = 2 * a * k0 * t / (sqrtl(1 - e2) * expl(E1));
  L lam = remainderl((L)lon, 360.0L);
  L sl, cl;
  {  // exact quadrant handling for multiples of 90
    L r = remainderl(lam, 90.0L); int q = (int)lrintl((lam - r) / 90);
    L s0 = sinl(r * DEG), c0 = cosl(r * DEG);
    switch (((q % 4) + 4) % 4) { case 0: sl = s0; cl = c0; break; case 1: sl = c0; cl = -s0; break; case 2: sl = -s0; cl = -c0; break; default: sl = -c0; cl = s0; }
  }
  PSOut o;
  o.x = rho * sl; o.y = northp ? -rho * cl : rho * cl;
  o.gamma = northp ? lam : -lam;
  L m = sinl(th) / sqrtl(1 - e2 * c * c);          // cos(phi)/sqrt(1-e2 sin^2 phi)
  o.k = th == 0 ? k0 : rho / (a * m);
  return o;
}

}  // namespace rtm
