// R-ELL implementation, see ref/ell_ref.hpp
#include "ref/ell_ref.hpp"
#include "ref/aux_impl.hpp"

#include <boost/math/special_functions/ellint_1.hpp>
#include <boost/math/special_functions/ellint_2.hpp>
#include <boost/math/special_functions/ellint_3.hpp>
#include <boost/math/special_functions/ellint_d.hpp>
#include <boost/math/special_functions/ellint_rc.hpp>
#include <boost/math/special_functions/ellint_rd.hpp>
#include <boost/math/special_functions/ellint_rf.hpp>
#include <boost/math/special_functions/ellint_rg.hpp>
#include <boost/math/special_functions/ellint_rj.hpp>
#include <boost/math/special_functions/jacobi_elliptic.hpp>
#include <cmath>
#include <cstdio>
#include <string>

namespace ref {
namespace ell {

using mpx::mp;
using mpx::toL;
using mpx::Quad;
using mpx::gk;
using mpx::QUAD_ACCEPT;
using boost::multiprecision::abs;

namespace {

const L LINF = (L)INFINITY;

// ------------------------------------------------------------------------------------------------ Carlson
template <class Fn> bool guarded(Fn fn, L& out) {
  try { mp v = fn(); out = toL(v); return true; } catch (const std::exception&) { return false; }
}
bool nonneg(double x) { return x >= 0 && std::isfinite(x); }

// defining integrals over t = exp(w)
struct CarlsonQ {
  mp x, y, z, p; int which;   // 0 RF, 1 RJ (RD: p = z; RC: z = y), 2 RG
  mp operator()(const mp& w) const {
    mp t = exp(w);
    mp s = sqrt((t + x) * (t + y) * (t + z));
    switch (which) {
      case 0: return mp(t / (2 * s));
      case 1: return mp(3 * t / (2 * s * (t + p)));
      default: return mp(t * t * (x / (t + x) + y / (t + y) + z / (t + z)) / (4 * s));
    }
  }
};
bool carlson_quad(int which, const mp& x, const mp& y, const mp& z, const mp& p, mp& out) {
  CarlsonQ q; q.x = x; q.y = y; q.z = z; q.p = p; q.which = which;
  mp mn = -1, mx = 0;
  for (const mp* v : {&x, &y, &z, &p}) {
    if (*v > 0 && (mn < 0 || *v < mn)) mn = *v;
    if (*v > mx) mx = *v;
  }
  if (!(mn > 0)) return false;
  mp lo = log(mn) - 250, hi = log(mx) + 250;
  Quad r = gk(q, lo, hi);
  out = r.val;
  return r.relerr < QUAD_ACCEPT;
}

// ------------------------------------------------------------------------------------------------ Legendre
struct MPar { mp k2, kp2, a2, ap2; bool ok = false; };

bool resolve_pair(double v, double vp, mp& m, mp& mpc) {
  if (!std::isfinite(v) || !std::isfinite(vp) || v > 1 || vp < 0) return false;
  mp a(v), b(vp);
  if (a + b == 1) { m = a; mpc = b; return true; }
  // the two must be complements up to one rounding of the larger one
  mp dev = abs(a + b - 1), big = abs(a) > abs(b) ? mp(abs(a)) : mp(abs(b));
  if (dev > big * mp(2.3e-16)) return false;
  if (abs(b) < abs(a)) { mpc = b; m = 1 - b; } else { m = a; mpc = 1 - a; }
  return true;
}
MPar resolve(const Par& p) {
  MPar P;
  P.ok = resolve_pair(p.k2, p.kp2, P.k2, P.kp2) && resolve_pair(p.alpha2, p.alphap2, P.a2, P.ap2);
  return P;
}

struct Integrand {
  const MPar* P; int kind; bool cform;
  mp operator()(const mp& t) const {
    mp om = (1 - t) * (1 + t), t2 = t * t;
    mp D2 = cform ? mp(P->kp2 + P->k2 * t2) : mp(P->kp2 + P->k2 * om);
    mp D = sqrt(D2), w = 1 / sqrt(om);
    switch (kind) {
      case KF: return mp(w / D);
      case KE: return mp(w * D);
      case KD: return mp(w * (cform ? om : t2) / D);
      default: break;
    }
    mp A = cform ? mp(P->ap2 + P->a2 * t2) : mp(P->ap2 + P->a2 * om);
    switch (kind) {
      case KPI: return mp(w / (A * D));
      case KG: return mp(w * D / A);
      default: return mp(w * (cform ? t2 : om) / (A * D));     // KH
    }
  }
};
bool diverges(const MPar& P, int kind) {
  switch (kind) {
    case KF: case KD: return P.kp2 == 0;
    case KE: return false;
    case KPI: return P.kp2 == 0 || P.ap2 == 0;
    case KG: return P.ap2 == 0;
    default: return P.kp2 == 0 && P.ap2 == 0;   // KH
  }
}
// c-form for k'^2 << k^2: the integrand has a near-singularity at t = +-i k'/k.  With t = (k'/k) sinh u the factor
// sqrt(k'^2 + k^2 t^2) = k' cosh u is entire: dt / Delta = du / k, Delta dt = (k'^2 / k) cosh^2 u du.
struct IntegrandU {
  const MPar* P; int kind; mp k, kp, r;     // r = k'/k
  mp operator()(const mp& u) const {
    mp sh = sinh(u), ch2 = 1 + sh * sh, t = r * sh, t2 = t * t, om = (1 - t) * (1 + t), w = 1 / sqrt(om);
    switch (kind) {
      case KF: return mp(w / k);
      case KE: return mp(w * P->kp2 * ch2 / k);
      case KD: return mp(w * om / k);
      default: break;
    }
    mp A = P->ap2 + P->a2 * t2;
    switch (kind) {
      case KPI: return mp(w / (A * k));
      case KG: return mp(w * P->kp2 * ch2 / (k * A));
      default: return mp(w * t2 / (A * k));     // KH
    }
  }
};
bool part(const MPar& P, int kind, bool cform, const mp& upper, mp& out) {
  if (cform && P.k2 > 0 && P.kp2 > 0 && P.kp2 < mp("1e-3") * P.k2) {
    IntegrandU f; f.P = &P; f.kind = kind; f.k = sqrt(P.k2); f.kp = sqrt(P.kp2); f.r = f.kp / f.k;
    mp U = asinh(upper / f.r);
    Quad q = gk(f, mp(0), U);
    out = q.val;
    return q.relerr < QUAD_ACCEPT;
  }
  Integrand f; f.P = &P; f.kind = kind; f.cform = cform;
  Quad q = gk(f, mp(0), upper);
  out = q.val;
  return q.relerr < QUAD_ACCEPT;
}
const mp& rhalf() { static const mp r = 1 / sqrt(mp(2)); return r; }

// complete integral; inf = true when it diverges
struct CompleteCache { MPar P; mp val[NKIND]; bool have[NKIND]; bool valid = false; };
bool complete_mp(const MPar& P, int kind, mp& out, bool& inf) {
  inf = diverges(P, kind);
  if (inf) return true;
  static CompleteCache C;       // the checks evaluate many amplitudes / kinds for one parameter set
  if (!(C.valid && C.P.k2 == P.k2 && C.P.kp2 == P.kp2 && C.P.a2 == P.a2 && C.P.ap2 == P.ap2)) {
    C.P = P; C.valid = true;
    for (int i = 0; i < NKIND; ++i) C.have[i] = false;
  }
  if (C.have[kind]) { out = C.val[kind]; return true; }
  mp a, b;
  if (!part(P, kind, false, rhalf(), a) || !part(P, kind, true, rhalf(), b)) return false;
  out = a + b;
  C.val[kind] = out; C.have[kind] = true;
  return true;
}
// X(r) for r in [0, pi/2] given s = sin r, c = cos r
bool reduced_mp(const MPar& P, int kind, const mp& s, const mp& c, const mp& Xc, bool inf, mp& out, bool& oinf) {
  oinf = false;
  if (s == 0) { out = 0; return true; }
  if (c == 0) { if (inf) oinf = true; else out = Xc; return true; }
  if (inf || s <= c) return part(P, kind, false, s, out);
  mp t; if (!part(P, kind, true, c, t)) return false;
  out = Xc - t;
  return true;
}
// general: phi = n pi + sg r
bool general_mp(const MPar& P, int kind, const mp& n, int sg, const mp& s, const mp& c, mp& out, bool& oinf) {
  mp Xc; bool inf;
  if (!complete_mp(P, kind, Xc, inf)) return false;
  mp Xr; bool rinf;
  if (!reduced_mp(P, kind, s, c, Xc, inf, Xr, rinf)) return false;
  if (inf && n != 0) { oinf = true; out = n > 0 ? 1 : -1; return true; }
  if (rinf) { oinf = true; out = sg; return true; }
  oinf = false;
  out = (inf ? mp(0) : mp(2 * n * Xc)) + sg * Xr;
  return true;
}
bool from_phi(const mp& phi, mp& n, int& sg, mp& s, mp& c, mp* r0 = nullptr) {
  n = floor(phi / mpx::pi() + mp(1) / 2);
  mp p0 = phi - n * mpx::pi();
  sg = p0 < 0 ? -1 : 1;
  mp r = abs(p0);
  s = sin(r); c = cos(r);
  if (c < 0) c = 0;
  if (r0) *r0 = r;
  return true;
}
L finish(const mp& v, bool inf) { return inf ? (v > 0 ? LINF : -LINF) : toL(v); }

}  // namespace

// ================================================================================================ API
bool RF(double x, double y, double z, L& out) {
  if (!nonneg(x) || !nonneg(y) || !nonneg(z)) return false;
  if ((x == 0) + (y == 0) + (z == 0) > 1) return false;
  return guarded([&] { return boost::math::ellint_rf(mp(x), mp(y), mp(z)); }, out);
}
bool RC(double x, double y, L& out) {
  if (!nonneg(x) || !(y > 0) || !std::isfinite(y)) return false;
  return guarded([&] { return boost::math::ellint_rc(mp(x), mp(y)); }, out);
}
bool RD(double x, double y, double z, L& out) {
  if (!nonneg(x) || !nonneg(y) || !(z > 0) || !std::isfinite(z) || (x == 0 && y == 0)) return false;
  return guarded([&] { return boost::math::ellint_rd(mp(x), mp(y), mp(z)); }, out);
}
bool RG(double x, double y, double z, L& out) {
  if (!nonneg(x) || !nonneg(y) || !nonneg(z)) return false;
  if ((x == 0) + (y == 0) + (z == 0) > 1) return false;
  return guarded([&] { return boost::math::ellint_rg(mp(x), mp(y), mp(z)); }, out);
}
bool RJ(double x, double y, double z, double p, L& out) {
  if (!nonneg(x) || !nonneg(y) || !nonneg(z) || !(p > 0) || !std::isfinite(p)) return false;
  if ((x == 0) + (y == 0) + (z == 0) > 1) return false;
  return guarded([&] { return boost::math::ellint_rj(mp(x), mp(y), mp(z), mp(p)); }, out);
}

bool complete(const Par& p, int kind, L& out) {
  MPar P = resolve(p); if (!P.ok || kind < 0 || kind >= NKIND) return false;
  mp v; bool inf;
  if (!complete_mp(P, kind, v, inf)) return false;
  out = inf ? LINF : toL(v);
  return true;
}
bool incomplete(const Par& p, int kind, double phi, L& out) {
  MPar P = resolve(p); if (!P.ok || kind < 0 || kind >= NKIND || !std::isfinite(phi)) return false;
  mp n, s, c, v; int sg; bool inf;
  from_phi(mp(phi), n, sg, s, c);
  if (!general_mp(P, kind, n, sg, s, c, v, inf)) return false;
  out = finish(v, inf);
  return true;
}
bool incomplete_deg(const Par& p, int kind, double ang, L& out) {
  MPar P = resolve(p); if (!P.ok || kind < 0 || kind >= NKIND || !std::isfinite(ang)) return false;
  mp a(ang);
  mp n = floor(a / 180 + mp(1) / 2);
  mp r0 = a - 180 * n;
  int sg = r0 < 0 ? -1 : 1;
  mp r = abs(r0), s, c;
  if (r <= 45) { s = sin(r * mpx::deg()); c = cos(r * mpx::deg()); }
  else { s = cos((90 - r) * mpx::deg()); c = sin((90 - r) * mpx::deg()); }
  mp v; bool inf;
  if (!general_mp(P, kind, n, sg, s, c, v, inf)) return false;
  out = finish(v, inf);
  return true;
}
static bool sc_reduce(double sn, double cn, int& sg, bool& back, mp& s, mp& c) {
  if (!std::isfinite(sn) || !std::isfinite(cn) || (sn == 0 && cn == 0)) return false;
  mp a = abs(mp(sn)), b = abs(mp(cn)), h = sqrt(a * a + b * b);
  s = a / h; c = b / h;
  sg = std::signbit(sn) ? -1 : 1;
  back = std::signbit(cn);
  return true;
}
bool incomplete_sc(const Par& p, int kind, double sn, double cn, L& out) {
  MPar P = resolve(p); if (!P.ok || kind < 0 || kind >= NKIND) return false;
  int sg; bool back; mp s, c;
  if (!sc_reduce(sn, cn, sg, back, s, c)) return false;
  mp Xc; bool inf;
  if (!complete_mp(P, kind, Xc, inf)) return false;
  mp Xr; bool rinf;
  if (!reduced_mp(P, kind, s, c, Xc, inf, Xr, rinf)) return false;
  if (rinf || (back && inf)) { out = sg > 0 ? LINF : -LINF; return true; }
  out = toL(sg * (back ? mp(2 * Xc - Xr) : Xr));
  return true;
}
bool delta(const Par& p, int kind, double sn, double cn, L& out) {
  MPar P = resolve(p); if (!P.ok || kind < 0 || kind >= NKIND) return false;
  int sg; bool back; mp s, c;
  if (!sc_reduce(sn, cn, sg, back, s, c)) return false;
  if (back) sg = -sg;           // (sn, cn) -> (-sn, -cn): the function has period pi
  mp Xc; bool inf;
  if (!complete_mp(P, kind, Xc, inf)) return false;
  if (inf) return false;        // X(phi)/X is 0/inf or inf/inf: not a finite periodic function
  mp Xr; bool rinf;
  if (!reduced_mp(P, kind, s, c, Xc, inf, Xr, rinf)) return false;
  mp r = atan2(s, c);
  out = toL(sg * (Xr * mpx::half_pi() / Xc - r));
  return true;
}
bool einv(const Par& p, double x, L& out) {
  MPar P = resolve(p); if (!P.ok || !std::isfinite(x)) return false;
  mp Ec; bool inf;
  if (!complete_mp(P, KE, Ec, inf)) return false;
  mp X(x);
  mp n = floor(X / (2 * Ec) + mp(1) / 2);
  mp x0 = X - 2 * n * Ec;
  int sg = x0 < 0 ? -1 : 1;
  mp T = abs(x0), E45, phi0;
  if (!part(P, KE, false, rhalf(), E45)) return false;
  Integrand f; f.P = &P; f.kind = KE;
  if (T <= E45) {
    f.cform = false; mp s;
    if (!mpx::invert_integral(f, T, mp(1), T, s)) return false;
    phi0 = asin(s);
  } else {
    f.cform = true; mp c; mp Tc = Ec - T;
    if (Tc <= 0) phi0 = mpx::half_pi();
    else {
      if (!mpx::invert_integral(f, Tc, mp(1), Tc, c)) return false;
      phi0 = mpx::half_pi() - asin(c);
    }
  }
  out = toL(n * mpx::pi() + sg * phi0);
  return true;
}
bool Delta(const Par& p, double sn, double cn, L& out) {
  MPar P = resolve(p); if (!P.ok) return false;
  int sg; bool back; mp s, c;
  if (!sc_reduce(sn, cn, sg, back, s, c)) return false;
  out = toL(sqrt(P.kp2 + P.k2 * c * c));
  return true;
}

bool jacobi_from_phi(const Par& p, double phi, double& xd, L& am, L& sn, L& cn, L& dn) {
  MPar P = resolve(p); if (!P.ok || !std::isfinite(phi)) return false;
  mp n, s, c, x, r; int sg; bool inf;
  from_phi(mp(phi), n, sg, s, c, &r);
  if (!general_mp(P, KF, n, sg, s, c, x, inf) || inf) return false;
  xd = x.convert_to<double>();
  if (!std::isfinite(xd)) return false;
  mp del = mp(xd) - x;
  mp D = sqrt(P.kp2 + P.k2 * c * c);
  mp r1 = sg * r + del * D;                   // amplitude relative to n pi
  mp s1 = sin(r1), c1 = cos(r1);
  mp nm = n - 2 * floor(n / 2);
  int par = nm == 0 ? 1 : -1;
  am = toL(n * mpx::pi() + r1);
  sn = toL(par * s1); cn = toL(par * c1);
  dn = toL(sqrt(P.kp2 + P.k2 * c1 * c1));
  return true;
}
bool jacobi(const Par& p, double x, L& am, L& sn, L& cn, L& dn) {
  MPar P = resolve(p); if (!P.ok || !std::isfinite(x)) return false;
  if (P.k2 < 0 || P.k2 > 1) return false;
  if (P.kp2 != 0 && P.kp2 < mp("1e-40")) return false;
  try {
    mp k = sqrt(P.k2), X(x), n = 0;
    if (P.kp2 != 0) {
      mp K; bool inf;
      if (!complete_mp(P, KF, K, inf) || inf) return false;
      n = floor(X / (2 * K) + mp(1) / 2);
      X -= 2 * n * K;
    }
    mp c0, d0, s0 = boost::math::jacobi_elliptic(k, X, &c0, &d0);
    mp nm = n - 2 * floor(n / 2);
    int par = nm == 0 ? 1 : -1;
    am = toL(n * mpx::pi() + atan2(s0, c0));
    sn = toL(par * s0); cn = toL(par * c0); dn = toL(d0);
    return true;
  } catch (const std::exception&) { return false; }
}

// ================================================================================================ self-validation
double selfcheck(char* report, int reportlen, int part_, int nparts) {
  long idx = 0;
  auto mine = [&]() { return nparts <= 1 || (idx++ % nparts) == part_; };
  mp w_car = 0, w_leg = 0, w_jac = 0;
  int n_car = 0, n_leg = 0, n_jac = 0, refused = 0;
  auto rel = [](const mp& a, const mp& b) { return b == 0 ? mp(abs(a)) : mp(abs(a / b - 1)); };
  // ---- Carlson: Boost vs defining integrals
  // sorted triples only (RF, RG, RJ are symmetric in x, y, z); RD is taken with each of the three as last argument
  const char* av[] = {"0", "1e-8", "0.3", "1", "2.5", "1e6"};
  const int NA = 6;
  for (int ix = 0; ix < NA; ++ix) for (int iy = ix; iy < NA; ++iy) for (int iz = iy; iz < NA; ++iz) {
    mp x(av[ix]), y(av[iy]), z(av[iz]);
    if ((x == 0) + (y == 0) + (z == 0) > 1) continue;
    if (!mine()) continue;
    mp q;
    try {
      if (carlson_quad(0, x, y, z, mp(1), q)) { mp d = rel(q, boost::math::ellint_rf(x, y, z)); if (d > w_car) w_car = d; ++n_car; } else ++refused;
      if (carlson_quad(2, x, y, z, mp(1), q)) { mp d = rel(q, boost::math::ellint_rg(x, y, z)); if (d > w_car) w_car = d; ++n_car; } else ++refused;
      if (z > 0 && !(x == 0 && y == 0)) {
        if (carlson_quad(1, x, y, z, z, q)) { mp d = rel(q, boost::math::ellint_rd(x, y, z)); if (d > w_car) w_car = d; ++n_car; } else ++refused;
      }
      if (y == z && y > 0) {
        if (carlson_quad(0, x, y, y, mp(1), q)) { mp d = rel(q, boost::math::ellint_rc(x, y)); if (d > w_car) w_car = d; ++n_car; } else ++refused;
      }
      if (x > 0 && !(y == 0 && z == 0)) {
        if (carlson_quad(1, y, z, x, x, q)) { mp d = rel(q, boost::math::ellint_rd(y, z, x)); if (d > w_car) w_car = d; ++n_car; } else ++refused;
      }
      for (const char* ps : {"1e-8", "0.7", "40"}) {
        mp p(ps);
        if (carlson_quad(1, x, y, z, p, q)) { mp d = rel(q, boost::math::ellint_rj(x, y, z, p)); if (d > w_car) w_car = d; ++n_car; } else ++refused;
      }
    } catch (const std::exception&) { ++refused; }
  }
  // ---- Legendre: quadrature vs Boost (0 <= k2 < 1)
  const char* k2v[] = {"0", "0.1", "0.5", "0.9", "0.999999", "0.99999999999999999999"};
  const char* a2v[] = {"-5", "-0.5", "0", "0.3", "0.9"};
  const double phv[] = {0.001, 0.4, 0.785, 1.2, 1.5707, 2.5, -4, 10};
  for (const char* ks : k2v) for (const char* as : a2v) {
    MPar P; P.k2 = mp(ks); P.kp2 = 1 - P.k2; P.a2 = mp(as); P.ap2 = 1 - P.a2; P.ok = true;
    mp k = sqrt(P.k2);
    for (double ph : phv) {
      if (!mine()) continue;
      mp phi(ph), n, s, c; int sg; from_phi(phi, n, sg, s, c);
      try {
        mp Fb = boost::math::ellint_1(k, phi), Eb = boost::math::ellint_2(k, phi), Db = boost::math::ellint_d(k, phi),
           Pb = boost::math::ellint_3(k, P.a2, phi);
        mp Gb = P.a2 == 0 ? Eb : mp(P.k2 / P.a2 * Fb + (1 - P.k2 / P.a2) * Pb);
        mp Hb = P.a2 == 0 ? mp(Fb - Db) : mp(Fb / P.a2 + (1 - 1 / P.a2) * Pb);
        mp refv[6] = {Fb, Eb, Db, Pb, Gb, Hb};
        for (int kind = 0; kind < NKIND; ++kind) {
          mp v; bool inf;
          if (!general_mp(P, kind, n, sg, s, c, v, inf) || inf) { ++refused; continue; }
          mp d = rel(v, refv[kind]);
          // G and H from Boost are differences of F and Pi: allow for their cancellation
          if (kind >= KG) { mp canc = (abs(Fb) + abs(Pb)) * (1 + abs(1 / (P.a2 == 0 ? mp(1) : P.a2))) / abs(refv[kind]); d /= (canc > 1 ? canc : mp(1)); }
          if (d > w_leg) w_leg = d;
          ++n_leg;
        }
      } catch (const std::exception&) { ++refused; }
    }
  }
  // ---- Jacobi: F_quadrature(am_Boost(x)) = x
  const char* k2j[] = {"0", "0.3", "0.9", "0.999999", "1"};
  const double xv[] = {0.01, 0.5, 1.3, 3, -7, 25};
  for (const char* ks : k2j) {
    MPar P; P.k2 = mp(ks); P.kp2 = 1 - P.k2; P.a2 = 0; P.ap2 = 1; P.ok = true;
    for (double x : xv) {
      if (!mine()) continue;
      Par pp = {P.k2.convert_to<double>(), P.kp2.convert_to<double>(), 0, 1};
      (void)pp;
      try {
        mp k = sqrt(P.k2), c0, d0, s0 = boost::math::jacobi_elliptic(k, mp(x), &c0, &d0);
        if (P.kp2 == 0 && std::fabs(x) > 20) continue;          // cn ~ 1e-11: F ill-conditioned through cn, skip
        // amplitude in (-pi, pi] and whole periods from K
        mp Kc; bool inf; if (!complete_mp(P, KF, Kc, inf)) { ++refused; continue; }
        mp nper = inf ? mp(0) : mp(floor(mp(x) / (2 * Kc) + mp(1) / 2));
        mp s, c; s = abs(s0); c = abs(c0);
        mp Xr; bool rinf;
        if (!reduced_mp(P, KF, s, c, Kc, inf, Xr, rinf) || rinf) { ++refused; continue; }
        // x - 2 nper K = +-Xr
        mp x0 = mp(x) - (inf ? mp(0) : mp(2 * nper * Kc));
        mp d = abs(abs(x0) - Xr) / (1 + abs(mp(x)));
        if (d > w_jac) w_jac = d;
        mp id = abs(s0 * s0 + c0 * c0 - 1) + abs(d0 * d0 + P.k2 * s0 * s0 - 1);
        if (id > w_jac) w_jac = id;
        ++n_jac;
      } catch (const std::exception&) { ++refused; }
    }
  }
  char buf[512];
  std::snprintf(buf, sizeof buf,
                "ell selfcheck: Carlson Boost vs defining integral %.2e (%d values); Legendre quadrature vs Boost ellint %.2e (%d); "
                "Jacobi Boost vs inverse of quadrature F %.2e (%d); refused %d",
                (double)w_car, n_car, (double)w_leg, n_leg, (double)w_jac, n_jac, refused);
  if (report && reportlen > 0) std::snprintf(report, (size_t)reportlen, "%s", buf);
  mp worst = w_car; if (w_leg > worst) worst = w_leg; if (w_jac > worst) worst = w_jac;
  if (refused > 0 && worst < 1) worst = 1;
  return (double)worst;
}

}  // namespace ell
}  // namespace ref
