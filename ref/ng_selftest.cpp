// Self-validation of R-NG (not part of any check; build by hand):
//   g++ -std=gnu++17 -O2 -I/verif ref/ng_selftest.cpp ref/ng_ref.cpp -o /tmp/ng_selftest && /tmp/ng_selftest
#include <cmath>
#include <cstdio>
#include <vector>
#include "ref/ng_ref.hpp"

using namespace ref::ng;
typedef long double L;

int main() {
  std::printf("Q, H: closed expressions vs Taylor series at the switch |x| = 0.01: %.3Lg\n", series_switch_defect());
  Params sets[] = {
    {6378137.0, 3.986004418e14, 7.292115e-5, 1 / 298.257223563},   // WGS84
    {6378137.0, 3.986005e14, 7.292115e-5, 1 / 298.257222101},       // GRS80
    {1.0, 1.0, 0.3, 0.2},                                           // the documentation's figure
    {1.0, 1.0, 0.3, -0.25},                                         // prolate
    {6371000.0, 3.986e14, 7.292115e-5, 0.0},                        // sphere
    {6378137.0, 3.986004418e14, 0.0, 1e-9},                         // nearly spherical, no rotation
    {2.0, 5.0, 1.1, 0.45}, {2.0, 5.0, 1.1, -0.45}, {3.0, 2.0, 0.5, -1e-10}};
  for (const Params& p : sets) {
    L u0 = U0(p), wconst = 0, wsom = 0, wlap = 0, wdir = 0;
    for (int i = -18; i <= 18; ++i) {
      double lat = 5.0 * i;
      L xyz[3];
      Pot q = potential_geodetic(p, lat, 0, true, xyz);
      wconst = std::max(wconst, fabsl((q.U - u0) + q.Ulo) / fabsl(u0));
      L gmag = sqrtl(q.gam[0] * q.gam[0] + q.gam[1] * q.gam[1] + q.gam[2] * q.gam[2]);
      wsom = std::max(wsom, fabsl(gmag - fabsl(surface_gravity(p, lat))) / gmag);
      // gravity is normal to the ellipsoid: direction (cos phi, 0, sin phi)
      L ph = lat * 3.14159265358979323846264338327950288L / 180;
      L tang = -q.gam[0] * sinl(ph) + q.gam[2] * cosl(ph);
      wdir = std::max(wdir, fabsl(tang) / gmag);
      wlap = std::max(wlap, q.lap);
    }
    // off-surface Laplace residual
    for (int i = 0; i < 20; ++i) {
      double s = 0.6 + 0.37 * i;
      Pot q = potential(p, p.a * s * 0.7, -p.a * s * 0.2, p.a * s * (i % 2 ? 0.9 : -0.3), true);
      wlap = std::max(wlap, q.lap);
    }
    L ge = gamma_e(p), gp = gamma_p(p);
    L xyz[3];
    Pot qe = potential_geodetic(p, 0, 0, true, xyz), qp = potential_geodetic(p, 90, 0, true, xyz);
    L de = fabsl(-qe.gam[0] - ge) / fabsl(ge), dp = fabsl(-qp.gam[2] - gp) / fabsl(gp);
    L jerr; std::vector<L> J = zonal_J(p, 20, &jerr);
    L j2 = J2(p);
    // H+M 2-92 for comparison only
    L e2 = (L)p.f * (2 - (L)p.f), wj = 0, wodd = 0;
    for (int n = 1; n <= 20; ++n) {
      if (n & 1) { wodd = std::max(wodd, fabsl(J[(size_t)n])); continue; }
      int k = n / 2;
      if (e2 == 0) continue;
      L hm = -3 * powl(-e2, k) * ((1 - k) + 5 * k * j2 / e2) / ((2 * k + 1) * (2 * k + 3));
      if (fabsl(hm) > 1e-60L) wj = std::max(wj, fabsl(J[(size_t)n] - hm) / fabsl(hm));
    }
    std::printf("a=%g GM=%g w=%g f=%g:\n  U const on ellipsoid %.2Lg | |grad U| vs Somigliana %.2Lg | tangential gravity %.2Lg | gamma_e,p vs grad %.2Lg %.2Lg\n"
                "  Laplace residual %.2Lg | J2(moments) vs projection %.2Lg | J_n vs H+M 2-92 (n<=20) %.2Lg | max|J_odd| %.2Lg | proj err est %.2Lg\n",
                p.a, p.GM, p.omega, p.f, wconst, wsom, wdir, de, dp, wlap, fabsl(J[2] - j2) / std::max(fabsl(j2), 1e-300L), wj, wodd, jerr);
  }
  return 0;
}
