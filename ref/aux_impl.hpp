// R-MP internals (50-digit arithmetic).  Include ONLY from ref/aux_ref.cpp, ref/rhumb_ref.cpp,
// ref/ell_ref.cpp: Boost.Multiprecision makes a TU cost 15-25 s to compile; the props TUs see the
// plain long double API of ref/aux_ref.hpp, ref/rhumb_ref.hpp, ref/ell_ref.hpp.
//
// Everything here is written from the definitions (textbook closed forms, defining integrals by
// adaptive Gauss-Kronrod quadrature).  No series in the third flattening, no Clenshaw sums, no
// divided differences, no Carlson duplication, no Newton iteration in log2(tan): 50 digits make the
// naive formulas accurate to >= 30 digits everywhere the library needs special care.
#pragma once
#include <boost/math/constants/constants.hpp>
#include <boost/math/quadrature/gauss_kronrod.hpp>
#include <boost/math/quadrature/gauss.hpp>
#include <boost/multiprecision/cpp_bin_float.hpp>
#include <vector>

namespace ref {
namespace mpx {

typedef boost::multiprecision::cpp_bin_float_50 mp;

inline mp pi() { return boost::math::constants::pi<mp>(); }
inline mp half_pi() { return boost::math::constants::half_pi<mp>(); }
inline mp deg() { return boost::math::constants::pi<mp>() / 180; }
inline long double toL(const mp& x) { return x.convert_to<long double>(); }

// adaptive Gauss-Kronrod (15/31) on Boost's node tables.  (Boost's own adaptive driver compares an
// unscaled error with a scaled tolerance and recurses to the depth limit on short intervals, so the
// recursion is done here.)  Local criterion: a panel is accepted when |K31 - G15| <= 1e-22 of its own
// L1 norm; for the analytic integrands used here the 31-point value is then good to ~(1e-22)^1.5.
// All integrands are of one sign, so local relative accuracy is global relative accuracy.
// relerr reported = sum over panels of the (pessimistic) |K31-G15|^1.5 model / L1.
struct Quad { mp val, relerr; };
struct GKTables {
  std::vector<mp> x, wk, wg;     // non-negative Kronrod abscissas, Kronrod weights, Gauss weights (for odd indices)
  GKTables() {
    auto const& xa = boost::math::quadrature::gauss_kronrod<mp, 31>::abscissa();
    auto const& wa = boost::math::quadrature::gauss_kronrod<mp, 31>::weights();
    auto const& ga = boost::math::quadrature::gauss<mp, 15>::weights();
    for (size_t i = 0; i < xa.size(); ++i) { x.push_back(xa[i]); wk.push_back(wa[i]); }
    for (size_t i = 0; i < ga.size(); ++i) wg.push_back(ga[i]);
  }
};
inline const GKTables& gktab() { static const GKTables t; return t; }
template <class F>
inline void gk_panel(F& f, const mp& lo, const mp& hi, mp& K, mp& G, mp& L1) {
  const GKTables& T = gktab();
  mp mean = (lo + hi) / 2, scale = (hi - lo) / 2;
  // 15-point Gauss nodes are the Kronrod nodes of odd index (Gauss order 15 is odd: centre node belongs to both)
  mp f0 = f(mean);
  K = f0 * T.wk[0]; G = f0 * T.wg[0]; L1 = boost::multiprecision::abs(f0) * T.wk[0];
  for (size_t i = 1; i < T.x.size(); ++i) {
    mp d = scale * T.x[i];
    mp fp = f(mp(mean + d)), fm = f(mp(mean - d));
    K += (fp + fm) * T.wk[i];
    L1 += (boost::multiprecision::abs(fp) + boost::multiprecision::abs(fm)) * T.wk[i];
    if ((i & 1) == 0) G += (fp + fm) * T.wg[i / 2];
  }
  mp as = boost::multiprecision::abs(scale);
  K *= scale; G *= scale; L1 *= as;
}
template <class F>
inline void gk_rec(F& f, const mp& lo, const mp& hi, int depth, mp& val, mp& errsum, mp& l1sum) {
  mp K, G, L1;
  gk_panel(f, lo, hi, K, G, L1);
  mp d = boost::multiprecision::abs(K - G);
  static const mp accept("1e-22");
  if (d <= accept * L1 || depth <= 0) {
    val += K; l1sum += L1;
    if (L1 > 0) { mp r = d / L1; errsum += L1 * r * sqrt(r) * 10; }
    if (depth <= 0 && !(d <= accept * L1)) errsum += d;      // not converged: make it visible
    return;
  }
  mp mid = (lo + hi) / 2;
  gk_rec(f, lo, mid, depth - 1, val, errsum, l1sum);
  gk_rec(f, mid, hi, depth - 1, val, errsum, l1sum);
}
template <class F>
inline Quad gk(F f, const mp& lo, const mp& hi, int depth = 400) {
  Quad q; q.val = 0; q.relerr = 0;
  if (lo == hi) return q;
  mp err = 0, l1 = 0;
  gk_rec(f, lo, hi, depth, q.val, err, l1);
  q.relerr = l1 > 0 ? mp(err / l1) : mp(0);
  return q;
}
static const double QUAD_ACCEPT = 1e-27;   // refuse (-> SKIP in the check) above this relative estimate

// Solve Int_0^v g = T for v in (0, vmax), g > 0: Newton on v with incremental integrals, bisection
// safeguard.  Returns false if not converged (check then skips the case).
template <class G>
inline bool invert_integral(G g, const mp& T, const mp& vmax, mp v, mp& vout) {
  using boost::multiprecision::abs;
  if (T == 0) { vout = 0; return true; }
  if (!(v > 0) || !(v < vmax)) v = vmax / 2;
  Quad q = gk(g, mp(0), v);
  if (!(q.relerr < QUAD_ACCEPT)) return false;
  mp F = q.val, lo = 0, hi = vmax;
  for (int it = 0; it < 200; ++it) {
    mp r = F - T;
    if (abs(r) <= mp("1e-42") * T) { vout = v; return true; }
    if (r < 0) lo = v; else hi = v;
    mp vn = v - r / g(v);
    if (!(vn > lo) || !(vn < hi)) vn = (lo + hi) / 2;
    if (abs(vn - v) <= mp("1e-46") * v) { vout = vn; return true; }
    Quad d = gk(g, v, vn);
    if (!(d.relerr < QUAD_ACCEPT)) return false;
    F += d.val; v = vn;
  }
  return false;
}

// ------------------------------------------------------------------------------------------------
// Ellipsoid of revolution, semi-axes a (equatorial), b (polar), in 50 digits
struct EllMP {
  mp a, b, f, fm1, e2, e2m1, ep2, n, ee;   // ee = sqrt|e2|
  int sgn = 0;                             // +1 oblate, 0 sphere, -1 prolate
  bool ok = false;
  mp Q;        // quarter meridian
  mp Ap;       // area between equator and pole per radian of longitude = (authalic radius)^2
  bool measures_ok = false;

  void init(const mp& a_, const mp& b_) {
    a = a_; b = b_;
    ok = a > 0 && b > 0;
    if (!ok) return;
    f = (a - b) / a; fm1 = b / a; e2 = (a - b) * (a + b) / (a * a); e2m1 = fm1 * fm1;
    ep2 = (a - b) * (a + b) / (b * b); n = (a - b) / (a + b);
    sgn = a > b ? 1 : (a < b ? -1 : 0);
    ee = sqrt(boost::multiprecision::abs(e2));
    // quarter meridian = Int_0^{pi/2} sqrt(a^2 sin^2 beta + b^2 cos^2 beta) d beta, split at beta = pi/4
    mp r = 1 / sqrt(mp(2));
    Quad q1 = merid_eq(r), q2 = merid_po(r);
    Quad q3 = zone(mp(1));
    Q = q1.val + q2.val; Ap = q3.val;
    measures_ok = q1.relerr < QUAD_ACCEPT && q2.relerr < QUAD_ACCEPT && q3.relerr < QUAD_ACCEPT;
  }
  // meridian arc from the equator to parametric latitude beta, s = sin beta (algebraic integrand)
  Quad merid_eq(const mp& s) const {
    mp a2 = a * a, b2 = b * b, d = a2 - b2;
    return gk([&](const mp& t) { mp t2 = t * t; return mp(sqrt((b2 + d * t2) / (1 - t2))); }, mp(0), s);
  }
  mp merid_eq_g(const mp& t) const { mp t2 = t * t; return sqrt((b * b + (a * a - b * b) * t2) / (1 - t2)); }
  // meridian arc from the pole down to parametric latitude beta, c = cos beta
  Quad merid_po(const mp& c) const {
    mp a2 = a * a, b2 = b * b, d = b2 - a2;
    return gk([&](const mp& t) { mp t2 = t * t; return mp(sqrt((a2 + d * t2) / (1 - t2))); }, mp(0), c);
  }
  mp merid_po_g(const mp& t) const { mp t2 = t * t; return sqrt((a * a + (b * b - a * a) * t2) / (1 - t2)); }
  // area per radian of longitude between the equator and parametric latitude beta, s = sin beta:
  // dA = (a cos beta) * sqrt(a^2 sin^2 + b^2 cos^2) d beta = a sqrt(b^2 + (a^2-b^2) s^2) ds
  Quad zone(const mp& s) const {
    mp b2 = b * b, d = a * a - b2;
    Quad q = gk([&](const mp& t) { return mp(sqrt(b2 + d * t * t)); }, mp(0), s);
    q.val *= a; return q;
  }
  mp zone_g(const mp& t) const { return a * sqrt(b * b + (a * a - b * b) * t * t); }
  // area per radian of the polar cap above parametric latitude beta, w = 1 - sin beta
  Quad cap(const mp& w) const {
    mp b2 = b * b, d = a * a - b2;
    Quad q = gk([&](const mp& t) { mp s = 1 - t; return mp(sqrt(b2 + d * s * s)); }, mp(0), w);
    q.val *= a; return q;
  }
  mp cap_g(const mp& t) const { mp s = 1 - t; return a * sqrt(b * b + (a * a - b * b) * s * s); }

  // ---- forward: tangent of geographic latitude (tau >= 0, finite) -> tangent of auxiliary latitude
  mp tbeta(const mp& tau) const { return fm1 * tau; }
  mp ttheta(const mp& tau) const { return e2m1 * tau; }
  // isometric latitude psi(phi) = asinh(tan phi) - e atanh(e sin phi)   (e imaginary for prolate)
  mp psi_of_tau(const mp& tau) const {
    mp u = asinh(tau);
    if (sgn == 0) return u;
    mp sphi = tau / sqrt(1 + tau * tau);
    return sgn > 0 ? mp(u - ee * atanh(ee * sphi)) : mp(u + ee * atan(ee * sphi));
  }
  mp tchi(const mp& tau) const { return sinh(psi_of_tau(tau)); }
  // rectifying: mu = (pi/2) m / Q
  bool tmu(const mp& tau, mp& out) const {
    if (!measures_ok) return false;
    mp tb = fm1 * tau, h = sqrt(1 + tb * tb);
    if (tb <= 1) {
      Quad q = merid_eq(tb / h); if (!(q.relerr < QUAD_ACCEPT)) return false;
      out = tan(half_pi() * q.val / Q);
    } else {
      Quad q = merid_po(1 / h); if (!(q.relerr < QUAD_ACCEPT)) return false;
      out = 1 / tan(half_pi() * q.val / Q);
    }
    return true;
  }
  // meridian distance from the equator to geographic latitude with tangent tau >= 0
  bool merid(const mp& tau, mp& out) const {
    if (!measures_ok) return false;
    mp tb = fm1 * tau, h = sqrt(1 + tb * tb);
    if (tb <= 1) { Quad q = merid_eq(tb / h); out = q.val; return q.relerr < QUAD_ACCEPT; }
    Quad q = merid_po(1 / h); out = Q - q.val; return q.relerr < QUAD_ACCEPT;
  }
  // authalic: sin xi = zone / Ap
  bool txi(const mp& tau, mp& out) const {
    if (!measures_ok) return false;
    mp tb = fm1 * tau, h = sqrt(1 + tb * tb);
    mp sxi, om;   // sin xi, 1 - sin xi
    if (tb <= 1) {
      Quad q = zone(tb / h); if (!(q.relerr < QUAD_ACCEPT)) return false;
      sxi = q.val / Ap; om = 1 - sxi;
    } else {
      mp w = 1 / (h * (h + tb));          // 1 - sin beta, no cancellation
      Quad q = cap(w); if (!(q.relerr < QUAD_ACCEPT)) return false;
      om = q.val / Ap; sxi = 1 - om;
    }
    out = sxi / sqrt(om * (1 + sxi));
    return true;
  }
  bool forward(int to, const mp& tau, mp& out) const {
    switch (to) {
      case 0: out = tau; return true;
      case 1: out = tbeta(tau); return true;
      case 2: out = ttheta(tau); return true;
      case 3: return tmu(tau, out);
      case 4: out = tchi(tau); return true;
      case 5: return txi(tau, out);
    }
    return false;
  }
  // ---- inverse: tangent of auxiliary latitude (t >= 0 finite) -> tangent of geographic latitude
  // geographic latitude (tangent) at meridian distance T from the equator, 0 <= T <= Q
  bool inv_merid(const mp& T, mp& tau) const {
    if (!measures_ok || T < 0 || T > Q) return false;
    mp tb;
    if (T <= merid_eq_cache()) {
      mp s;
      if (!invert_integral([&](const mp& x) { return merid_eq_g(x); }, T, mp(1), mp(T / b), s)) return false;
      tb = s / sqrt((1 - s) * (1 + s));
    } else {
      mp c, Tc = Q - T;
      if (Tc == 0) return false;             // the pole itself: tangent infinite
      if (!invert_integral([&](const mp& x) { return merid_po_g(x); }, Tc, mp(1), mp(Tc / a), c)) return false;
      tb = sqrt((1 - c) * (1 + c)) / c;
    }
    tau = tb / fm1;
    return true;
  }
  // same with the distance Tc from the pole given (keeps relative accuracy of huge tangents)
  bool inv_merid_pole(const mp& Tc, mp& tau) const {
    if (!measures_ok || !(Tc > 0) || Tc > Q) return false;
    if (Tc >= Q - merid_eq_cache()) return inv_merid(mp(Q - Tc), tau);
    mp c;
    if (!invert_integral([&](const mp& x) { return merid_po_g(x); }, Tc, mp(1), mp(Tc / a), c)) return false;
    tau = sqrt((1 - c) * (1 + c)) / c / fm1;
    return true;
  }
  bool inv_mu(const mp& t, mp& tau) const {
    if (!measures_ok) return false;
    if (t <= 1) return inv_merid(mp(Q * atan(t) / half_pi()), tau);
    return inv_merid_pole(mp(Q * atan(1 / t) / half_pi()), tau);
  }
  // arc from the equator to beta = pi/4 (decides from which end the inverse integrates)
  mp merid_eq_cache() const {
    if (!have_m45) { m45 = merid_eq(1 / sqrt(mp(2))).val; have_m45 = true; }
    return m45;
  }
  mutable mp m45; mutable bool have_m45 = false;

  bool inv_chi(const mp& t, mp& tau) const {
    if (sgn == 0) { tau = t; return true; }
    mp target = asinh(t);
    // unknown u = asinh(tau); psi(u) = u - e atanh(e tanh u) is monotone with slope in [min(1,1-e2), max(1,1-e2)]
    mp u = target;
    mp lo = 0, hi = -1;
    for (int it = 0; it < 300; ++it) {
      mp th = tanh(u), ch = cosh(u);
      mp psi = sgn > 0 ? mp(u - ee * atanh(ee * th)) : mp(u + ee * atan(ee * th));
      mp dpsi = e2m1 / (e2m1 + e2 / (ch * ch));      // = 1 - e2 sech^2 / (1 - e2 tanh^2)
      mp r = psi - target;
      if (boost::multiprecision::abs(r) <= mp("1e-44") * target) { tau = sinh(u); return true; }
      if (r < 0) lo = u; else hi = u;
      mp un = u - r / dpsi;
      if (!(un > lo) || (hi >= 0 && !(un < hi))) un = hi >= 0 ? mp((lo + hi) / 2) : mp(2 * u + 1);
      if (boost::multiprecision::abs(un - u) <= mp("1e-47") * u) { tau = sinh(un); return true; }
      u = un;
    }
    return false;
  }
  bool inv_xi(const mp& t, mp& tau) const {
    if (!measures_ok) return false;
    mp h = sqrt(1 + t * t), tb;
    mp Ahalf = zone_cache();
    mp T = Ap * t / h;                      // zone area
    if (T <= Ahalf) {
      mp s;
      if (!invert_integral([&](const mp& x) { return zone_g(x); }, T, mp(1), mp(T / (a * b)), s)) return false;
      tb = s / sqrt((1 - s) * (1 + s));
    } else {
      mp Tc = Ap / (h * (h + t)), w;        // cap area = Ap (1 - sin xi)
      if (!invert_integral([&](const mp& x) { return cap_g(x); }, Tc, mp(1), mp(Tc / (a * a)), w)) return false;
      mp s = 1 - w;
      tb = s / sqrt(w * (1 + s));
    }
    tau = tb / fm1;
    return true;
  }
  mp zone_cache() const {
    if (!have_z) { zhalf = zone(mp(1) / 2).val; have_z = true; }
    return zhalf;
  }
  mutable mp zhalf; mutable bool have_z = false;

  bool inverse(int from, const mp& t, mp& tau) const {
    switch (from) {
      case 0: tau = t; return true;
      case 1: tau = t / fm1; return true;
      case 2: tau = t / e2m1; return true;
      case 3: return inv_mu(t, tau);
      case 4: return inv_chi(t, tau);
      case 5: return inv_xi(t, tau);
    }
    return false;
  }
  // ---- radii and derivatives at geographic latitude with tangent tau (finite)
  mp sin2phi(const mp& tau) const { return tau * tau / (1 + tau * tau); }
  mp rho(const mp& tau) const { mp w = 1 - e2 * sin2phi(tau); return a * e2m1 / (w * sqrt(w)); }   // meridional
  mp nu(const mp& tau) const { mp w = 1 - e2 * sin2phi(tau); return a / sqrt(w); }                 // transverse
  // d(tan eta)/d(tan phi) = (d eta/d phi) (1+tan^2 eta)/(1+tan^2 phi)
  bool dforward(int to, const mp& tau, mp& out) const {
    mp t;
    if (!forward(to, tau, t)) return false;
    mp sec2r = (1 + t * t) / (1 + tau * tau), cphi = 1 / sqrt(1 + tau * tau), deta;
    switch (to) {
      case 0: out = 1; return true;
      case 1: out = fm1; return true;
      case 2: out = e2m1; return true;
      case 3: deta = half_pi() * rho(tau) / Q; break;                                   // d mu = (pi/2) dm/Q, dm = rho dphi
      case 4: deta = rho(tau) / (nu(tau) * cphi) / sqrt(1 + t * t); break;              // d psi = rho dphi/(nu cos phi), d chi = cos chi d psi
      case 5: deta = nu(tau) * cphi * rho(tau) / Ap * sqrt(1 + t * t); break;           // d sin xi = R rho dphi / Ap
      default: return false;
    }
    out = deta * sec2r;
    return true;
  }
};

// exact reduction of an angle in degrees: x = 90 q + r, |r| <= 45, returns sin and cos of x
inline void sincosd(const mp& x, mp& s, mp& c) {
  mp q = floor(x / 90 + mp(1) / 2);
  mp r = (x - 90 * q) * deg();
  mp sr = sin(r), cr = cos(r);
  mp qm = q - 4 * floor(q / 4);
  int k = qm.convert_to<int>();
  switch (k & 3) {
    case 0: s = sr; c = cr; break;
    case 1: s = cr; c = -sr; break;
    case 2: s = -sr; c = -cr; break;
    default: s = -cr; c = sr; break;
  }
}

}  // namespace mpx
}  // namespace ref
