// Self-validation of R-GEOID (not part of any check; build by hand):
//   g++ -std=gnu++17 -O2 -I/verif ref/geoid_selftest.cpp -o /tmp/geoid_selftest && /tmp/geoid_selftest
// (a) a stencil sampled from a random cubic polynomial is reproduced by the unconstrained fit;
// (b) a stencil sampled from a polynomial without pure-x terms at the pole edge is reproduced by the polar fits;
// (c) the polar fits do not depend on fx at the pole edge for arbitrary data.
#include <cstdint>
#include <cstdio>
#include "ref/geoid_ref.hpp"
using namespace ref::geoid;
static uint64_t s_ = 99;
static L rnd() { s_ += 0x9e3779b97f4a7c15ULL; uint64_t z = s_; z = (z ^ (z >> 30)) * 0xbf58476d1ce4e5b9ULL; z = (z ^ (z >> 27)) * 0x94d049bb133111ebULL; z ^= z >> 31; return (L)(z >> 11) / 9007199254740992.0L * 2 - 1; }
int main() {
  static const int sx[12] = {0, 1, -1, 0, 1, 2, -1, 0, 1, 2, 0, 1};
  static const int sy[12] = {-1, -1, 0, 0, 0, 0, 1, 1, 1, 1, 2, 2};
  static const int ex[10] = {0, 1, 0, 2, 1, 0, 3, 2, 1, 0};
  static const int ey[10] = {0, 0, 1, 0, 1, 2, 0, 1, 2, 3};
  L wa = 0, wb = 0, wc = 0;
  for (int it = 0; it < 2000; ++it) {
    for (int polar = -1; polar <= 1; ++polar) {
      L c[10]; for (int k = 0; k < 10; ++k) c[k] = rnd() * 30000;
      if (polar != 0) { c[1] = c[3] = c[6] = 0; }   // in coordinates with Y = 0 at the pole edge
      auto poly = [&](L x, L y) { L Y = polar < 0 ? 1 - y : y; L s = 0; for (int k = 0; k < 10; ++k) s += c[k] * powl(x, ex[k]) * powl(Y, ey[k]); return s; };
      L v[12]; for (int i = 0; i < 12; ++i) v[i] = poly(sx[i], sy[i]);
      L fx = (rnd() + 1) / 2, fy = (rnd() + 1) / 2, val, dx, dy;
      cubic_fit_eval(v, polar, fx, fy, val, dx, dy);
      L e = fabsl(val - poly(fx, fy)) / 65535;
      if (polar == 0) wa = std::max(wa, e); else wb = std::max(wb, e);
      if (polar != 0) {
        for (int i = 0; i < 12; ++i) v[i] = (rnd() + 1) * 32767;
        L v1, v2; L fyp = polar > 0 ? 0 : 1;
        cubic_fit_eval(v, polar, 0.123L, fyp, v1, dx, dy); cubic_fit_eval(v, polar, 0.987L, fyp, v2, dx, dy);
        wc = std::max(wc, fabsl(v1 - v2) / 65535);
      }
    }
  }
  std::printf("cubic reproduced (interior)   : %.3Lg of full scale\n", wa);
  std::printf("constrained cubic reproduced  : %.3Lg of full scale\n", wb);
  std::printf("pole value independent of fx  : %.3Lg of full scale\n", wc);
  return 0;
}
