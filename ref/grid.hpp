// R-GRID (DESIGN 1.4): independent cell models for Geohash, GARS, Georef and the OSGB National Grid
// letters, written from the public descriptions of the schemes (the documents cited by the headers),
// not from the library's encoders.  A code is decoded to its cell [w,e) x [s,n) in exact rational
// arithmetic; positions (doubles) are converted to their exact rational value, so containment,
// "exactly on an edge" and "within k ulp of an edge" are decided without round-off.
//
//   Geohash  base-32 alphabet 0-9 b-z without a,i,l,o; 5 bits per character, most significant first;
//            the bits alternately bisect the longitude interval [-180,180) and the latitude interval
//            [-90,90), starting with longitude; a 1 bit selects the upper half.
//   GARS     3 digits 001..720 = 30' longitude band counted eastwards from 180W; 2 letters AA..QZ
//            (alphabet without I and O) = 30' latitude band counted northwards from 90S; optional
//            quadrant digit 1..4 (1 NW, 2 NE, 3 SW, 4 SE) = 15'; optional keypad digit 1..9
//            (telephone keypad: 1 2 3 on the north row, west to east) = 5'.
//   Georef   letter 1: 15 deg longitude tile A..Z (without I,O) eastwards from 180W; letter 2: 15 deg
//            latitude tile A..M (without I) northwards from 90S; letters 3,4: degree within the tile
//            A..Q (without I,O), longitude first; then 2p digits (p = 2..11): p digits of longitude
//            minutes MM[ddd...] then p digits of latitude minutes, MM < 60.
//   OSGB     first letter: 500 km square of a 5x5 arrangement A..Z (without I), rows from the north,
//            the false origin being the SW corner of square S; second letter: 100 km square inside
//            it, same arrangement; then 2p digits (p = 0..11), eastings first.
#pragma once
#include <boost/multiprecision/cpp_int.hpp>

#include <cmath>
#include <limits>
#include <string>

namespace grid {
namespace mp = boost::multiprecision;
typedef mp::cpp_int Z;
typedef mp::cpp_rational Q;

// ---------------------------------------------------------------- exact values of doubles
inline Q exact(double x) {                    // finite x only
  if (x == 0) return Q(0);
  int e; double m = std::frexp(x, &e);        // x = m 2^e, 0.5 <= |m| < 1
  long long mi = (long long)std::ldexp(m, 53); e -= 53;
  Z num = mi;
  if (e >= 0) return Q(Z(num << e));
  return Q(num, Z(Z(1) << (-e)));
}
// spacing of the doubles just above |x| (a power of two); the smallest subnormal for 0
inline double ulp(double x) {
  x = std::fabs(x);
  if (!(x < std::numeric_limits<double>::max())) return std::ldexp(1.0, 971);
  return std::nextafter(x, std::numeric_limits<double>::infinity()) - x;
}
inline Z floorq(const Q& q) {
  Z n = mp::numerator(q), d = mp::denominator(q);
  Z r = n / d;                                 // truncates toward zero
  if (n < 0 && r * d != n) --r;
  return r;
}
inline bool is_integer(const Q& q) { return mp::denominator(q) == 1; }
// nearest double of a rational (to within 1 ulp; used only to build generator inputs and tolerances)
inline double to_double(const Q& q) { return q.convert_to<double>(); }
// longitude reduced to [-180,180), exactly
inline Q reduce_lon(const Q& lon) {
  Z k = floorq((lon + 180) / 360);
  return lon - Q(k) * 360;
}

// ---------------------------------------------------------------- cells
struct Cell {
  Q w, e, s, n;      // [w,e) x [s,n): degrees (lon, lat) or metres (easting, northing) for OSGB
  int prec = 0;      // the scheme's precision/length of the code
  Q cx() const { return (w + e) / 2; }
  Q cy() const { return (s + n) / 2; }
};
enum Status { VALID, MARKER, INVALID, UNJUDGED };
enum Scheme { GEOHASH = 0, GARS = 1, GEOREF = 2, OSGB = 3, NSCHEMES = 4 };
inline const char* scheme_name(int s) {
  static const char* nm[] = {"geohash", "gars", "georef", "osgb"};
  return (s >= 0 && s < NSCHEMES) ? nm[s] : "?";
}

inline char up(char c) { return (c >= 'a' && c <= 'z') ? char(c - 'a' + 'A') : c; }
inline char lo(char c) { return (c >= 'A' && c <= 'Z') ? char(c - 'A' + 'a') : c; }
inline std::string upper(std::string s) { for (auto& c : s) c = up(c); return s; }
inline std::string lower(std::string s) { for (auto& c : s) c = lo(c); return s; }
// position of c in the alphabet ignoring (ASCII) case; -1 if absent.  NUL is never a member.
inline int find_ci(const char* alphabet, char c) {
  if (c == 0) return -1;
  for (int i = 0; alphabet[i]; ++i) if (up(alphabet[i]) == up(c)) return i;
  return -1;
}
inline bool prefix_ci(const std::string& s, const char* p) {
  size_t n = std::char_traits<char>::length(p);
  if (s.size() < n) return false;
  for (size_t i = 0; i < n; ++i) if (up(s[i]) != up(p[i])) return false;
  return true;
}
inline Q pow10q(int k) { Z r = 1; for (int i = 0; i < k; ++i) r *= 10; return Q(r); }

// ---------------------------------------------------------------- Geohash
static const char* const GEOHASH32 = "0123456789bcdefghjkmnpqrstuvwxyz";
static const int GEOHASH_MAXLEN = 18;     // documented: only the first 18 characters are considered
inline Status geohash_decode(const std::string& code, Cell& c) {
  if (prefix_ci(code, "inv") || prefix_ci(code, "nan")) return MARKER;
  size_t L = code.size() < (size_t)GEOHASH_MAXLEN ? code.size() : (size_t)GEOHASH_MAXLEN;
  // intervals [x0, x0+xl) and [y0, y0+yl) in units of 2^-45 of the full range (bisection stays integral: <= 45 bits each)
  const long long FULL = 1LL << 45;
  long long x0 = 0, xl = FULL, y0 = 0, yl = FULL;
  bool lonbit = true;
  for (size_t k = 0; k < L; ++k) {
    int v = find_ci(GEOHASH32, code[k]);
    if (v < 0) return INVALID;
    for (int bit = 4; bit >= 0; --bit) {
      bool upperhalf = (v >> bit) & 1;
      if (lonbit) { xl /= 2; if (upperhalf) x0 += xl; }
      else { yl /= 2; if (upperhalf) y0 += yl; }
      lonbit = !lonbit;
    }
  }
  Q ux = Q(360) / Q(Z(FULL)), uy = Q(180) / Q(Z(FULL));
  c.w = Q(-180) + Q(Z(x0)) * ux; c.e = Q(-180) + Q(Z(x0 + xl)) * ux;
  c.s = Q(-90) + Q(Z(y0)) * uy; c.n = Q(-90) + Q(Z(y0 + yl)) * uy;
  c.prec = (int)L;
  return VALID;
}
inline std::string geohash_canon(const std::string& code) { return lower(code.substr(0, GEOHASH_MAXLEN)); }
// size of a cell of a geohash of length len (degrees)
inline Q geohash_lonsize(int len) { int bits = (5 * len + 1) / 2; return Q(360) / Q(Z(Z(1) << bits)); }
inline Q geohash_latsize(int len) { int bits = (5 * len) / 2; return Q(180) / Q(Z(Z(1) << bits)); }

// ---------------------------------------------------------------- GARS
static const char* const LETTERS24 = "ABCDEFGHJKLMNPQRSTUVWXYZ";   // no I, no O
static const char* const GARS_QUAD[2] = {"34", "12"};               // [row from south][column from west]
static const char* const GARS_KEYPAD[3] = {"789", "456", "123"};    // [row from south][column from west]
inline bool find_in_table(const char* const* tab, int n, char c, int& row, int& col) {
  for (int r = 0; r < n; ++r) for (int k = 0; k < n; ++k) if (tab[r][k] == c) { row = r; col = k; return true; }
  return false;
}
inline Status gars_decode(const std::string& code, Cell& c) {
  if (prefix_ci(code, "INV")) return MARKER;
  if (code.size() < 5 || code.size() > 7) return INVALID;
  int band = 0;
  for (int i = 0; i < 3; ++i) { if (code[i] < '0' || code[i] > '9') return INVALID; band = 10 * band + (code[i] - '0'); }
  if (band < 1 || band > 720) return INVALID;
  int a = find_ci(LETTERS24, code[3]), b = find_ci(LETTERS24, code[4]);
  if (a < 0 || b < 0) return INVALID;
  int row = 24 * a + b;
  if (row >= 360) return INVALID;               // AA .. QZ
  Q size = Q(1, 2);
  Q w = Q(-180) + Q(band - 1) * size, s = Q(-90) + Q(row) * size;
  if (code.size() >= 6) {
    int r, k; if (!find_in_table(GARS_QUAD, 2, code[5], r, k)) return INVALID;
    size /= 2; w += Q(k) * size; s += Q(r) * size;
  }
  if (code.size() == 7) {
    int r, k; if (!find_in_table(GARS_KEYPAD, 3, code[6], r, k)) return INVALID;
    size /= 3; w += Q(k) * size; s += Q(r) * size;
  }
  c.w = w; c.e = w + size; c.s = s; c.n = s + size; c.prec = (int)code.size() - 5;
  return VALID;
}
inline Q gars_size(int prec) { return prec <= 0 ? Q(1, 2) : prec == 1 ? Q(1, 4) : Q(1, 12); }

// ---------------------------------------------------------------- Georef
static const char* const GEOREF_LATTILE = "ABCDEFGHJKLM";        // 12 tiles of 15 deg
static const char* const GEOREF_DEG = "ABCDEFGHJKLMNPQ";          // 15 degrees
static const int GEOREF_MAXPREC = 11;
inline bool all_digits(const std::string& s, size_t from) {
  for (size_t i = from; i < s.size(); ++i) if (s[i] < '0' || s[i] > '9') return false;
  return true;
}
inline Z digits_value(const std::string& s, size_t from, size_t n) {
  Z v = 0; for (size_t i = 0; i < n; ++i) v = v * 10 + (s[from + i] - '0');
  return v;
}
inline Status georef_decode(const std::string& code, Cell& c) {
  if (prefix_ci(code, "INV")) return MARKER;
  size_t L = code.size();
  if (L < 2) return INVALID;
  int i = find_ci(LETTERS24, code[0]), j = find_ci(GEOREF_LATTILE, code[1]);
  if (i < 0 || j < 0) return INVALID;
  Q w = Q(-180) + Q(15 * i), s = Q(-90) + Q(15 * j), size = 15;
  int prec = -1;
  if (L > 2) {
    if (L < 4) return INVALID;
    int di = find_ci(GEOREF_DEG, code[2]), dj = find_ci(GEOREF_DEG, code[3]);
    if (di < 0 || dj < 0) return INVALID;
    w += Q(di); s += Q(dj); size = 1; prec = 0;
    if (L > 4) {
      size_t nd = L - 4;
      if (!all_digits(code, 4) || nd % 2) return INVALID;
      int p = (int)(nd / 2);
      if (p < 2 || p > GEOREF_MAXPREC) return INVALID;
      if (code[4] >= '6' || code[4 + p] >= '6') return INVALID;       // minutes < 60
      size = Q(1) / (Q(60) * pow10q(p - 2));
      w += Q(digits_value(code, 4, p)) * size;
      s += Q(digits_value(code, 4 + p, p)) * size;
      prec = p;
    }
  }
  c.w = w; c.e = w + size; c.s = s; c.n = s + size; c.prec = prec;
  return VALID;
}
inline Q georef_size(int prec) { return prec < 0 ? Q(15) : prec == 0 ? Q(1) : Q(1) / (Q(60) * pow10q((prec < 2 ? 2 : prec) - 2)); }
inline int georef_len(int prec) { return prec < 0 ? 2 : prec == 0 ? 4 : 4 + 2 * prec; }

// ---------------------------------------------------------------- OSGB grid letters
static const char* const OSGB_SQUARES[5] = {"VWXYZ", "QRSTU", "LMNOP", "FGHJK", "ABCDE"};   // [row from south][col from west]
static const int OSGB_MAXPREC = 11;
inline bool osgb_letter(char ch, int& row, int& col) {
  ch = up(ch);
  for (int r = 0; r < 5; ++r) for (int k = 0; k < 5; ++k) if (OSGB_SQUARES[r][k] == ch) { row = r; col = k; return true; }
  return false;
}
inline bool is_space(char ch) { return ch == ' ' || (ch >= '\t' && ch <= '\r'); }
inline Status osgb_decode(const std::string& code, Cell& c) {
  if (prefix_ci(code, "IN")) return MARKER;
  for (char ch : code) if (is_space(ch)) return UNJUDGED;   // the library skips white space; the header is silent
  size_t L = code.size();
  if (L < 2 || L % 2) return INVALID;
  int r1, c1, r2, c2;
  if (!osgb_letter(code[0], r1, c1) || !osgb_letter(code[1], r2, c2)) return INVALID;
  if (!all_digits(code, 2)) return INVALID;
  int p = (int)(L - 2) / 2;
  if (p > OSGB_MAXPREC) return INVALID;
  // square S (row 1 from the south, column 2) has its SW corner at the false origin
  Q x = Q(500000) * Q(c1 - 2) + Q(100000) * Q(c2);
  Q y = Q(500000) * Q(r1 - 1) + Q(100000) * Q(r2);
  Q size = Q(100000) / pow10q(p);
  x += Q(digits_value(code, 2, p)) * size;
  y += Q(digits_value(code, 2 + p, p)) * size;
  c.w = x; c.e = x + size; c.s = y; c.n = y + size; c.prec = p;
  return VALID;
}

// ---------------------------------------------------------------- common
inline Status decode(int scheme, const std::string& code, Cell& c) {
  switch (scheme) {
    case GEOHASH: return geohash_decode(code, c);
    case GARS: return gars_decode(code, c);
    case GEOREF: return georef_decode(code, c);
    case OSGB: return osgb_decode(code, c);
  }
  return UNJUDGED;
}
inline std::string canon(int scheme, const std::string& code) {
  return scheme == GEOHASH ? geohash_canon(code) : upper(code);
}
// finest grid of a scheme along an axis (axis 0 = lon/easting, 1 = lat/northing): origin and cell size
inline void finest(int scheme, int axis, Q& origin, Q& size) {
  switch (scheme) {
    case GEOHASH: origin = axis ? -90 : -180; size = Q(axis ? 180 : 360) / Q(Z(Z(1) << 45)); break;
    case GARS: origin = axis ? -90 : -180; size = Q(1, 12); break;
    case GEOREF: origin = axis ? -90 : -180; size = Q(1) / (Q(60) * pow10q(9)); break;
    default: origin = axis ? -500000 : -1000000; size = Q(1) / pow10q(6); break;
  }
}

// containment of a coordinate in [lo,hi) along one axis with the round-off band (DESIGN C18.a):
//   0 inside; 1 outside but within delta of the cell and not on an edge of the finest grid
//   (round-off band: either neighbour accepted); 2 violation (outside and either exactly on a finest-grid
//   edge, where exact behaviour is demanded, or farther than delta from the cell)
inline int axis_contains(const Q& P, const Q& lo, const Q& hi, const Q& origin, const Q& fine, const Q& delta, bool* onedge = nullptr) {
  bool edge = is_integer((P - origin) / fine);
  if (onedge) *onedge = edge;
  if (lo <= P && P < hi) return 0;
  if (edge) return 2;
  Q d = P < lo ? Q(lo - P) : Q(P - hi);
  return d <= delta ? 1 : 2;
}

}  // namespace grid
