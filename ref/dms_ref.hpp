// Reference acceptor / decoder for DMS strings (C10), written from the *text* of the documentation of
// DMS::Decode in include/GeographicLib/DMS.hpp and of man/GeoConvert.pod (section GEOGRAPHIC
// COORDINATES) and from the test expectations in tests/CMakeLists.txt (GeoConvert5, 9..13).  It shares
// no code with src/DMS.cpp: symbols are listed as Unicode code points (as in the header) and encoded
// here; the string is tokenised left to right, split into pieces at internal signs and every piece is
// parsed by a small grammar.
//
// Three-valued verdict:
//   VALID    the documentation says the string is legal: value/flag are given (long double)
//   INVALID  the documentation says it is malformed: the library must throw GeographicErr
//   UNSPEC   the documentation does not decide (listed below); only "no crash, no foreign exception"
// UNSPEC classes (kept narrow on purpose):
//   u1 lower-case hemisphere letters n s e w (header lists N, E, W, S only)
//   u2 ':' mixed with d ' " indicators in one piece
//   u3 nan/inf spellings other than [+-]nan, [+-]inf, [+-]infinity (any piece containing "nan", "inf" or '#')
//   u4 an ignorable space symbol inside a number or between two minute symbols, three or more
//      consecutive minute symbols
//   u5 a stray high-bit byte together with an ignorable space symbol (removal can splice bytes)
//   u6 minutes/seconds written with a decimal point whose exact value exceeds 60 but rounds to 60.0
#pragma once
#include <cmath>
#include <cstdlib>
#include <cstring>
#include <string>
#include <vector>

namespace dmsref {
typedef long double L;

// ---------------------------------------------------------------- symbol table (from DMS.hpp)
struct Sym { unsigned cp; char k; };   // k: d degrees, m minutes, s seconds, + - signs, i ignored space
inline const std::vector<Sym>& syms() {
  static const std::vector<Sym> t = {
      {0x00b0, 'd'}, {0x00ba, 'd'}, {0x2070, 'd'}, {0x02da, 'd'}, {0x2218, 'd'},
      {0x2032, 'm'}, {0x2035, 'm'}, {0x00b4, 'm'}, {0x2018, 'm'}, {0x2019, 'm'}, {0x201b, 'm'},
      {0x02b9, 'm'}, {0x02ca, 'm'}, {0x02cb, 'm'},
      {0x2033, 's'}, {0x2036, 's'}, {0x02dd, 's'}, {0x201c, 's'}, {0x201d, 's'}, {0x201f, 's'}, {0x02ba, 's'},
      {0x2795, '+'}, {0x2064, '+'},
      {0x2010, '-'}, {0x2011, '-'}, {0x2013, '-'}, {0x2014, '-'}, {0x2212, '-'}, {0x2796, '-'},
      {0x00a0, 'i'}, {0x2007, 'i'}, {0x2009, 'i'}, {0x200a, 'i'}, {0x200b, 'i'}, {0x202f, 'i'}, {0x2063, 'i'}};
  return t;
}
inline std::string utf8(unsigned cp) {
  std::string s;
  if (cp < 0x80) s += char(cp);
  else if (cp < 0x800) { s += char(0xc0 | (cp >> 6)); s += char(0x80 | (cp & 0x3f)); }
  else { s += char(0xe0 | (cp >> 12)); s += char(0x80 | ((cp >> 6) & 0x3f)); s += char(0x80 | (cp & 0x3f)); }
  return s;
}
// all byte spellings of one kind: ASCII forms first, then UTF-8, then the single-byte (Latin-1) form of
// code points below U+0100 ("accepted in their UTF-8 coded form 0xc2 0xb0 and as a single byte 0xb0")
inline std::vector<std::string> spellings(char k) {
  std::vector<std::string> v;
  switch (k) {
    case 'd': v = {"d", "D", "*"}; break;
    case 'm': v = {"'", "`"}; break;
    case 's': v = {"\""}; break;
    case '+': v = {"+"}; break;
    case '-': v = {"-"}; break;
    default: break;
  }
  for (const Sym& s : syms()) if (s.k == k) v.push_back(utf8(s.cp));
  for (const Sym& s : syms()) if (s.k == k && s.cp < 0x100) v.push_back(std::string(1, char(s.cp)));
  return v;
}

// ---------------------------------------------------------------- tokens
struct Tok { char k; unsigned char c; bool lower; };   // k: 0 digit, . d m s : + - H(emisphere) w(hitespace) i x(other)
inline std::vector<Tok> tokenize(const std::string& s, bool& stray_high) {
  std::vector<Tok> out; stray_high = false;
  struct Pat { std::string b; char k; };
  static std::vector<Pat> pats3, pats2, pats1;
  static bool init = false;
  if (!init) {
    for (const Sym& y : syms()) {
      std::string u = utf8(y.cp);
      (u.size() == 3 ? pats3 : pats2).push_back({u, y.k});
      if (y.cp < 0x100) pats1.push_back({std::string(1, char(y.cp)), y.k});
    }
    init = true;
  }
  size_t p = 0, n = s.size();
  while (p < n) {
    unsigned char c = (unsigned char)s[p];
    bool done = false;
    if (c >= 0x80) {
      for (const auto* ps : {&pats3, &pats2, &pats1}) {
        for (const Pat& q : *ps)
          if (s.compare(p, q.b.size(), q.b) == 0) { out.push_back({q.k, c, false}); p += q.b.size(); done = true; break; }
        if (done) break;
      }
      if (!done) { out.push_back({'x', c, false}); stray_high = true; ++p; }
      continue;
    }
    char k;
    if (c >= '0' && c <= '9') k = '0';
    else if (c == '.') k = '.';
    else if (c == 'd' || c == 'D' || c == '*') k = 'd';
    else if (c == '\'' || c == '`') k = 'm';
    else if (c == '"') k = 's';
    else if (c == ':') k = ':';
    else if (c == '+') k = '+';
    else if (c == '-') k = '-';
    else if (c == 'N' || c == 'S' || c == 'E' || c == 'W' || c == 'n' || c == 's' || c == 'e' || c == 'w') k = 'H';
    else if (c == ' ' || (c >= 9 && c <= 13)) k = 'w';
    else k = 'x';
    out.push_back({k, c, bool(c >= 'a' && c <= 'z')});
    ++p;
  }
  return out;
}

enum Cls { VALID = 0, INVALID = 1, UNSPEC = 2 };
struct Res {
  Cls cls = INVALID;
  L value = 0;        // VALID only
  int flag = 0;       // 0 NONE, 1 LATITUDE, 2 LONGITUDE
  L sumabs = 0;       // sum of |piece| (scale for the round-off tolerance)
  int npieces = 0;
  bool special = false;   // contains a nan/inf piece
  std::string why;        // reason (INVALID/UNSPEC)
};

struct PieceRes { Cls cls = INVALID; L value = 0; int flag = 0; bool special = false; std::string why; };

inline std::string lower(std::string s) { for (char& c : s) if (c >= 'A' && c <= 'Z') c = char(c - 'A' + 'a'); return s; }

inline PieceRes parse_piece(const std::vector<Tok>& t, size_t a, size_t b, bool first) {
  PieceRes r;
  // nan / inf pieces are recognised on the raw text of the piece
  {
    std::string txt;
    for (size_t i = a; i < b; ++i) txt += (t[i].k == '+' ? '+' : t[i].k == '-' ? '-' : char(t[i].c));
    std::string lo = lower(txt), core = lo;
    if (!core.empty() && (core[0] == '+' || core[0] == '-')) core = core.substr(1);
    bool neg = !lo.empty() && lo[0] == '-';
    if (core == "nan") { r.cls = VALID; r.value = std::nanl(""); r.special = true; return r; }
    if (core == "inf" || core == "infinity") { r.cls = VALID; r.value = neg ? -INFINITY : INFINITY; r.special = true; return r; }
    if (lo.find("nan") != std::string::npos || lo.find("inf") != std::string::npos || lo.find('#') != std::string::npos) {
      r.cls = UNSPEC; r.why = "u3 nan/inf variant"; return r;
    }
  }
  char pre = 0, suf = 0; int sg = 1;
  if (first && a < b && t[a].k == 'H') { pre = char(t[a].c); ++a; }
  if (a < b && (t[a].k == '+' || t[a].k == '-')) { if (t[a].k == '-') sg = -1; ++a; }
  if (a < b && t[b - 1].k == 'H') { suf = char(t[b - 1].c); --b; }
  if (pre && suf) { r.why = "hemisphere designator at both ends"; return r; }
  if (a >= b) { r.why = "no components"; return r; }
  // body: numbers separated / followed by indicators
  struct Comp { std::string num; char sep; };   // sep 0 = none
  std::vector<Comp> comps;
  std::string cur; bool have = false;
  for (size_t i = a; i < b; ++i) {
    char k = t[i].k;
    if (k == '0' || k == '.') { cur += char(t[i].c); have = true; continue; }
    if (k == 'd' || k == 'm' || k == 's' || k == ':') {
      if (!have) { r.why = "indicator without a number"; return r; }
      comps.push_back({cur, k}); cur.clear(); have = false; continue;
    }
    r.why = "illegal character in a piece"; return r;
  }
  if (have) comps.push_back({cur, 0});
  if (comps.empty()) { r.why = "no components"; return r; }
  bool colon = false, indic = false;
  for (size_t i = 0; i < comps.size(); ++i) {
    const std::string& nm = comps[i].num;
    size_t dots = 0, digs = 0;
    for (char c : nm) { if (c == '.') ++dots; else ++digs; }
    if (dots > 1) { r.why = "multiple decimal points"; return r; }
    if (digs == 0) { r.why = "number without digits"; return r; }
    if (dots && i + 1 < comps.size()) { r.why = "decimal point in a non-final component"; return r; }
    if (comps[i].sep == ':') colon = true; else if (comps[i].sep) indic = true;
  }
  if (comps.back().sep == ':') { r.why = "colon at the end"; return r; }
  if (colon && indic) { r.cls = UNSPEC; r.why = "u2 colon mixed with indicators"; return r; }
  L piece[3] = {0, 0, 0};
  bool unspec60 = false;
  int prev = -1;
  if (colon && comps.size() > 3) { r.why = "more than 3 components"; return r; }
  for (size_t i = 0; i < comps.size(); ++i) {
    int u;
    if (colon) u = (int)i;
    else if (comps[i].sep) u = comps[i].sep == 'd' ? 0 : comps[i].sep == 'm' ? 1 : 2;
    else u = prev + 1;
    if (u > 2) { r.why = "text after seconds"; return r; }
    if (u <= prev) { r.why = "components out of order or repeated"; return r; }
    prev = u;
    const std::string& nm = comps[i].num;
    L x = std::strtold(nm.c_str(), nullptr);
    double xd = std::strtod(nm.c_str(), nullptr);
    if (u > 0) {
      bool dot = nm.find('.') != std::string::npos;
      if (!dot) { if (x >= 60) { r.why = "minutes/seconds >= 60"; return r; } }
      else {
        if (xd > 60) { r.why = "minutes/seconds > 60"; return r; }
        if (x > 60) unspec60 = true;
      }
    }
    piece[u] = x;
  }
  if (unspec60) { r.cls = UNSPEC; r.why = "u6 rounds to 60.0"; return r; }
  char h = pre ? pre : suf;
  int hs = 1;
  bool lowerh = false;
  if (h) {
    char H = h; if (H >= 'a' && H <= 'z') { H = char(H - 'a' + 'A'); lowerh = true; }
    r.flag = (H == 'N' || H == 'S') ? 1 : 2;
    if (H == 'S' || H == 'W') hs = -1;
  }
  r.value = L(sg * hs) * (piece[0] + piece[1] / 60 + piece[2] / 3600);
  r.cls = lowerh ? UNSPEC : VALID;
  if (lowerh) r.why = "u1 lower-case hemisphere";
  return r;
}

inline Res decode(const std::string& s) {
  Res R;
  bool stray = false;
  std::vector<Tok> t0 = tokenize(s, stray), t;
  bool has_ign = false, u4 = false;
  // remove ignorable space symbols, noting where removal joins number characters or minute symbols
  for (size_t i = 0; i < t0.size(); ++i) {
    if (t0[i].k != 'i') { t.push_back(t0[i]); continue; }
    has_ign = true;
    size_t j = i; while (j < t0.size() && t0[j].k == 'i') ++j;
    if (!t.empty() && j < t0.size()) {
      char ka = t.back().k, kb = t0[j].k;
      bool na = ka == '0' || ka == '.', nb = kb == '0' || kb == '.';
      if ((na && nb) || (ka == 'm' && kb == 'm')) u4 = true;
    }
    i = j - 1;
  }
  // two consecutive minute symbols are a seconds symbol
  {
    std::vector<Tok> m;
    for (size_t i = 0; i < t.size();) {
      if (t[i].k == 'm') {
        size_t j = i; while (j < t.size() && t[j].k == 'm') ++j;
        size_t run = j - i;
        if (run >= 3) u4 = true;
        for (size_t q = 0; q + 1 < run; q += 2) m.push_back({'s', '"', false});
        if (run % 2) m.push_back({'m', '\'', false});
        i = j;
      } else m.push_back(t[i++]);
    }
    t.swap(m);
  }
  // leading / trailing white space
  size_t a = 0, b = t.size();
  while (a < b && t[a].k == 'w') ++a;
  while (a < b && t[b - 1].k == 'w') --b;
  t = std::vector<Tok>(t.begin() + (long)a, t.begin() + (long)b);
  if (stray && has_ign) { R.cls = UNSPEC; R.why = "u5 stray high-bit byte with ignorable symbol"; return R; }
  if (t.empty()) { R.why = "empty"; return R; }
  // split into pieces at internal signs
  std::vector<std::pair<size_t, size_t>> pc;
  {
    size_t i = 0, start = 0, n = t.size();
    if (t[0].k == 'H') i = 1;
    if (i < n && (t[i].k == '+' || t[i].k == '-')) ++i;
    for (size_t j = i; j < n; ++j)
      if (t[j].k == '+' || t[j].k == '-') { pc.emplace_back(start, j); start = j; }
    pc.emplace_back(start, n);
  }
  bool anyun = false; std::string unwhy;
  L sum = 0, sumabs = 0; int flag = 0; bool special = false;
  for (size_t q = 0; q < pc.size(); ++q) {
    PieceRes p = parse_piece(t, pc[q].first, pc[q].second, q == 0);
    if (p.cls == INVALID) { R.cls = INVALID; R.why = p.why; return R; }
    if (p.cls == UNSPEC) { anyun = true; unwhy = p.why; continue; }
    if (p.flag) {
      if (flag && flag != p.flag) { R.cls = INVALID; R.why = "incompatible hemisphere designators"; return R; }
      flag = p.flag;
    }
    sum += p.value; if (std::isfinite((double)p.value)) sumabs += fabsl(p.value);
    special = special || p.special;
  }
  R.npieces = (int)pc.size();
  if (anyun) { R.cls = UNSPEC; R.why = unwhy; return R; }
  if (u4) { R.cls = UNSPEC; R.why = "u4 ignorable symbol inside a number / minute-symbol run"; return R; }
  R.cls = VALID; R.value = sum; R.flag = flag; R.sumabs = sumabs; R.special = special;
  return R;
}

}  // namespace dmsref
