// R-NG: reference normal gravity of a level ellipsoid (DESIGN 1.4).
//
// Closed form of Heiskanen & Moritz (Physical Geodesy, sec. 2-7 .. 2-10, 6-2) as restated in the library
// documentation page "normalgravity":  U = U_m + U_q + U_r with
//   oblate : U_m = GM/E atan(E/u),      U_q = w^2/2 a^2 b^3/u^3 Q(E/u)/Q(E/b) (sin^2 beta - 1/3)
//   prolate: U_m = GM/E' asinh(E'/u'),  U_q = w^2/2 a^2 b^3/(u'^2+E'^2)^(3/2) Q'(E'/u')/Q'(E'/a) (sin^2 beta - 1/3)
//   sphere : U_m = GM/r,                U_q = w^2/2 a^5/r^3 (sin^2 theta' - 1/3)
//   U_r = w^2/2 (X^2 + Y^2),
// evaluated with the *plain* closed expressions for Q, Q', H, H' in 100-digit arithmetic (ng_ref.cpp), i.e.
// without the atanzz/atan5series/atan7series/Qf/Hf machinery NormalGravity.cpp needs in double.
// The gradient is a 100-digit central difference of the potential (not H+M 6-10/6-12), surface gravity is
// Somigliana's formula with gamma_a, gamma_b from the closed expressions, J2 comes from the moments of
// inertia of the documented mass distribution, and the zonal coefficients J_n are obtained by
// Gauss-Legendre projection of the closed-form potential on a sphere (not from H+M 2-92).
// Self-checks returned per call: Laplace residual of V0 and (separately, ng_selftest) U constant on the
// ellipsoid, gamma_a/gamma_b equal to the numerical gradient at equator/pole.
#pragma once
#include <vector>

namespace ref { namespace ng {

struct Params { double a, GM, omega, f; };

struct Pot {
  long double V0 = 0, V0lo = 0;       // gravitational part U_m + U_q
  long double Phi = 0;                // centrifugal part
  long double U = 0, Ulo = 0;         // V0 + Phi
  long double G[3] = {0, 0, 0};       // grad V0
  long double gam[3] = {0, 0, 0};     // grad U
  long double lap = 0;                // |lap V0| r^2 / (|U_m| + |U_q|)
  long double uob = 0;                // ellipsoidal coordinate u/b (oblate, sphere) or u'/a (prolate): 1 on the ellipsoid
  long double Um = 0, Uq = 0;         // magnitudes of the two gravitational parts (for tolerances)
  bool ok = true;
};

Pot potential(const Params& p, double X, double Y, double Z, bool grad);
// same at geodetic (lat [deg], lon = 0, h) with the point computed in 100 digits (no input rounding)
Pot potential_geodetic(const Params& p, double lat, double h, bool grad, long double* XYZ = nullptr);

long double series_switch_defect();                    // self-test: closed Q, H vs their Taylor series at |x| = 0.01
long double U0(const Params& p);                       // potential on the ellipsoid
long double gamma_e(const Params& p);                  // equatorial and polar normal gravity (closed form)
long double gamma_p(const Params& p);
long double surface_gravity(const Params& p, double lat);   // Somigliana
long double J2(const Params& p);                       // (C - A)/(M a^2)
long double dJ2df(const Params& p);                    // numerical derivative (conditioning of the inverse)
// zonal coefficients J_0..J_nmax of V0 = GM/r (1 - sum_n J_n (a/r)^n P_n(cos theta)) for n >= 1, J_0 = -1
// (the library's convention), by projection; abserr receives an estimate of the projection error
std::vector<long double> zonal_J(const Params& p, int nmax, long double* abserr = nullptr);

}}  // namespace ref::ng
