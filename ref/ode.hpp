// R-ODE: reference geodesic on an ellipsoid of revolution, from the definitions only.
//   r'' = -(v.Hv / g.g) g   on  x^2/a^2 + y^2/a^2 + z^2/b^2 = 1   (unit speed)
//   Jacobi equation  m'' + K m = 0,  K = 1/(a^4 b^2 (g.g)^2)
//   arc length on the auxiliary sphere  dsigma/ds = 1/(a sqrt(1 - e^2 rho^2/a^2))
//   area  S = c^2 * dalpha + Int (A(phi) - c^2 sin phi) dlambda   (d alpha = sin phi d lambda)
// integrated by Gragg-Bulirsch-Stoer extrapolation (modified midpoint, n = 2..16) in
// long double.  Shares nothing with GeographicLib: no auxiliary sphere, series,
// elliptic integrals or Newton iterations.
#pragma once
#include <cmath>
#include <algorithm>

namespace ref {

typedef long double L;
static const L PI_L = 3.14159265358979323846264338327950288L;
static const L DEG_L = PI_L / 180;

struct Ellipsoid {
  L a, f, b, e2, c2;   // e2 = f(2-f) (negative for prolate); c2 = authalic radius^2
  Ellipsoid(L a_, L f_) : a(a_), f(f_) {
    b = a * (1 - f); e2 = f * (2 - f);
    c2 = (a * a + b * b * atanhee(1)) / 2;
  }
  // atanh(e x)/e for either sign of e2 (x in [-1,1])
  L atanhee(L x) const {
    L t = e2 * x * x;
    if (fabsl(t) < 1e-4L) {
      L s = 0; for (int k = 6; k >= 0; --k) s = s * t + 1 / L(2 * k + 1);
      return x * s;
    }
    if (e2 > 0) { L e = sqrtl(e2); return atanhl(e * x) / e; }
    L e = sqrtl(-e2); return atanl(e * x) / e;
  }
  // area between equator and latitude phi per unit longitude, as a function of s = sin(phi)
  L Aofs(L s) const { return b * b / 2 * (s / (1 - e2 * s * s) + atanhee(s)); }
  // G(s) = (A(s) - c2 s)/(1 - s^2), evaluated without cancellation near s = +-1 (the poles):
  //   s/(1-e2 s^2) - s/(1-e2)            = -s e2 (1-s^2) / ((1-e2 s^2)(1-e2))
  //   atanhee(s) - s atanhee(1)          = (1-s) atanhee(s) - s Int_s^1 dt/(1-e2 t^2)
  //   Int_s^1 dt/(1-e2 t^2)              = atanhee(w),  w = (1-s)/(1-e2 s)   (addition theorem)
  L Gofs(L s) const {
    L sg = s < 0 ? -1 : 1; s = fabsl(s);
    L w = (1 - s) / (1 - e2 * s);
    L q = w != 0 ? atanhee(w) / w : 1;                     // -> 1 as w -> 0
    L t1 = -s * e2 / ((1 - e2 * s * s) * (1 - e2));
    L t2 = (atanhee(s) - s * q / (1 - e2 * s)) / (1 + s);
    return sg * b * b / 2 * (t1 + t2);
  }
  L area() const { return 4 * PI_L * c2; }
};

struct GeoPoint {          // position and direction in geographic terms
  L lat, lon, azi;         // degrees
};

struct OdeResult {
  L r[3], v[3];            // end position, unit velocity
  L lat2, lon2, azi2;      // degrees; lon2 in (-180,180], azi2 in (-180,180]
  L dlam;                  // unrolled longitude change, degrees (sense and circuits)
  L dalp;                  // unrolled azimuth change, degrees
  L m12, M12, M21;         // reduced length, geodesic scales
  L sig12;                 // spherical arc length on the auxiliary sphere, degrees
  L S12;                   // area under the geodesic, m^2 (unreduced)
  L Lz;                    // Clairaut constant rho^2 dlambda/ds (metres)
  L rhomin;                // smallest distance from the axis seen at a step end point
  L err;                   // |pos(H) - pos(H/2)| estimate, metres (set by direct())
  L errS;                  // same for S12
  L errm;                  // same for m12
  bool meridional;         // Lz == 0 exactly (longitude/azimuth unrolling not meaningful)
};

inline L dist3(const L* p, const L* q);

class Ode {
public:
  static const int NV = 12;   // r(3) v(3) m m' M M' Ssmooth sigma
  Ellipsoid E;
  explicit Ode(const Ellipsoid& e) : E(e) {}

  void deriv(const L* y, L* d) const {
    const L ia2 = 1 / (E.a * E.a), ib2 = 1 / (E.b * E.b);
    L gx = y[0] * ia2, gy = y[1] * ia2, gz = y[2] * ib2;
    L gg = gx * gx + gy * gy + gz * gz;
    L vHv = (y[3] * y[3] + y[4] * y[4]) * ia2 + y[5] * y[5] * ib2;
    L k = -vHv / gg;
    d[0] = y[3]; d[1] = y[4]; d[2] = y[5];
    d[3] = k * gx; d[4] = k * gy; d[5] = k * gz;
    L K = ia2 * ia2 * ib2 / (gg * gg);
    d[6] = y[7]; d[7] = -K * y[6];
    d[8] = y[9]; d[9] = -K * y[8];
    // smooth part of the area integrand: (A(s) - c2 s) * Lz / rho^2
    L rho2 = y[0] * y[0] + y[1] * y[1];
    L Lz = y[0] * y[4] - y[1] * y[3];
    L zz = y[2] / (1 - E.e2);               // tan(phi) = zz / rho
    L h2 = rho2 + zz * zz;
    L s = zz / sqrtl(h2);                    // sin(phi)
    // (A(s) - c2 s) Lz / rho^2 with rho^2 = a^2 (1-s^2)/(1-e2 s^2): regular at the poles
    d[10] = E.Gofs(s) * Lz * (1 - E.e2 * s * s) * ia2;
    d[11] = 1 / (E.a * sqrtl(1 - E.e2 * rho2 * ia2));
  }

  // one GBS step of size H, y updated in place
  void gbs(L* y, L H) const {
#ifndef REF_ODE_SEQ
#define REF_ODE_SEQ {2, 4, 6, 8, 12, 16, 24, 32}   // Bulirsch sequence: smaller round-off amplification than 2k
#endif
    const int KMAX = 8;
    static const int nseq[KMAX] = REF_ODE_SEQ;
    L T[KMAX][KMAX][NV];
    L z0[NV], z1[NV], z2[NV], d[NV];
    for (int k = 0; k < KMAX; ++k) {
      int n = nseq[k]; L h = H / n;
      for (int i = 0; i < NV; ++i) z0[i] = y[i];
      deriv(z0, d);
      for (int i = 0; i < NV; ++i) z1[i] = z0[i] + h * d[i];
      for (int m = 1; m < n; ++m) {
        deriv(z1, d);
        for (int i = 0; i < NV; ++i) { z2[i] = z0[i] + 2 * h * d[i]; z0[i] = z1[i]; z1[i] = z2[i]; }
      }
      deriv(z1, d);
      for (int i = 0; i < NV; ++i) T[k][0][i] = (z1[i] + z0[i] + h * d[i]) / 2;
      for (int j = 1; j <= k; ++j) {
        L ratio = L(nseq[k]) / L(nseq[k - j]);
        L den = ratio * ratio - 1;
        for (int i = 0; i < NV; ++i) T[k][j][i] = T[k][j - 1][i] + (T[k][j - 1][i] - T[k - 1][j - 1][i]) / den;
      }
    }
    for (int i = 0; i < NV; ++i) y[i] = T[KMAX - 1][KMAX - 1][i];
    project(y);
  }
  // the solution lies on the constraint manifold {Phi(r) = 0, v.grad Phi = 0, |v| = 1}; errors
  // normal to it are neutrally stable (grow linearly with round-off), so remove them
  void project(L* y) const {
    const L ia2 = 1 / (E.a * E.a), ib2 = 1 / (E.b * E.b);
    for (int it = 0; it < 2; ++it) {
      L gx = y[0] * ia2, gy = y[1] * ia2, gz = y[2] * ib2;
      L phi = y[0] * gx + y[1] * gy + y[2] * gz - 1;
      L gg = gx * gx + gy * gy + gz * gz;
      L t = phi / (2 * gg);
      y[0] -= t * gx; y[1] -= t * gy; y[2] -= t * gz;
    }
    L gx = y[0] * ia2, gy = y[1] * ia2, gz = y[2] * ib2;
    L gg = gx * gx + gy * gy + gz * gz;
    L vn = (y[3] * gx + y[4] * gy + y[5] * gz) / gg;
    y[3] -= vn * gx; y[4] -= vn * gy; y[5] -= vn * gz;
    L sp = sqrtl(y[3] * y[3] + y[4] * y[4] + y[5] * y[5]);
    y[3] /= sp; y[4] /= sp; y[5] /= sp;
  }

  static L wrap(L x, L lo) {   // into [lo, lo + 2pi)
    L y = fmodl(x - lo, 2 * PI_L); if (y < 0) y += 2 * PI_L; return y + lo;
  }
  void geo_of(const L* y, L& sphi, L& cphi, L& lam, L& alp) const {
    L rho = hypotl(y[0], y[1]);
    L zz = y[2] / (1 - E.e2);
    L h = hypotl(rho, zz);
    sphi = zz / h; cphi = rho / h;
    lam = atan2l(y[1], y[0]);
    L cl = rho > 0 ? y[0] / rho : 1, sl = rho > 0 ? y[1] / rho : 0;
    L ve = -sl * y[3] + cl * y[4];
    L vn = -sphi * (cl * y[3] + sl * y[4]) + cphi * y[5];
    alp = atan2l(ve, vn);
  }

  // start state from geographic point and azimuth (degrees)
  void start(L lat, L lon, L azi, L* y) const {
    L sphi, cphi, sl, cl, sa, ca;
    sincosd(lat, sphi, cphi); sincosd(lon, sl, cl); sincosd(azi, sa, ca);
    L nu = E.a / sqrtl(1 - E.e2 * sphi * sphi);
    y[0] = nu * cphi * cl; y[1] = nu * cphi * sl; y[2] = nu * (1 - E.e2) * sphi;
    // east = (-sl, cl, 0), north = (-sphi cl, -sphi sl, cphi)
    y[3] = sa * (-sl) + ca * (-sphi * cl);
    y[4] = sa * (cl) + ca * (-sphi * sl);
    y[5] = ca * cphi;
    y[6] = 0; y[7] = 1; y[8] = 1; y[9] = 0; y[10] = 0; y[11] = 0;
  }
  // exact-at-cardinal-points sin/cos of degrees in long double
  static void sincosd(L x, L& s, L& c) {
    L r = fmodl(x, 360.0L);
    int q = (int)lroundl(r / 90);
    r -= 90 * q; r *= DEG_L;
    L sr = sinl(r), cr = cosl(r);
    switch (unsigned(q) & 3u) {
      case 0: s = sr; c = cr; break;
      case 1: s = cr; c = -sr; break;
      case 2: s = -sr; c = -cr; break;
      default: s = -cr; c = sr; break;
    }
  }

  // integrate a signed distance s12 with nominal step H
  OdeResult run(L lat1, L lon1, L azi1, L s12, L H) const {
    L y[NV]; start(lat1, lon1, azi1, y);
    OdeResult R;
    R.Lz = y[0] * y[4] - y[1] * y[3];
    // exact meridional start: azimuth exactly 0/180 or start on the axis
    {
      L sa, ca; sincosd(azi1, sa, ca);
      L sphi, cphi; sincosd(lat1, sphi, cphi);
      R.meridional = (sa == 0) || (cphi == 0);
      if (R.meridional) R.Lz = 0;
    }
    long n = (long)ceill(fabsl(s12) / H); if (n < 1) n = 1;
    L h = s12 / n;
    L sphi, cphi, lam, alp;
    geo_of(y, sphi, cphi, lam, alp);
    // start values of longitude and azimuth from the inputs (at a pole they are not recoverable from the
    // Cartesian state: the azimuth there is measured against the meridian lon1, by continuity)
    lam = remainderl(lon1, 360.0L) * DEG_L; alp = remainderl(azi1, 360.0L) * DEG_L;
    L lamU = 0, alpU = 0;   // unrolled changes, radians
    L dir = R.Lz * (s12 >= 0 ? 1 : -1) >= 0 ? 1 : -1;   // sense of longitude motion
    R.rhomin = hypotl(y[0], y[1]);
    for (long i = 0; i < n; ++i) {
      L sphi0 = sphi, lam0 = lam, alp0 = alp;
      gbs(y, h);
      geo_of(y, sphi, cphi, lam, alp);
      R.rhomin = std::min(R.rhomin, hypotl(y[0], y[1]));
      // longitude is monotonic (Clairaut): step change in [-0.5, 2pi-0.5) in the sense of motion
      // (exactly meridional lines: Lz = 0, no sense of motion; the only longitude changes are the swing at
      // a pole start, |dl| < pi, and pole crossings, dl = +-pi with a conventional sign)
      L dl = R.meridional ? wrap(lam - lam0, -PI_L) : dir * wrap(dir * (lam - lam0), -0.5L);
      lamU += dl;
      // azimuth: d alpha = sin phi d lambda; choose the branch nearest to that estimate
      L est = (sphi0 + sphi) / 2 * dl;
      L da = wrap(alp - alp0 - est, -PI_L) + est;
      alpU += da;
    }
    for (int i = 0; i < 3; ++i) { R.r[i] = y[i]; R.v[i] = y[3 + i]; }
    R.m12 = y[6]; R.M21 = y[7]; R.M12 = y[8];
    R.sig12 = y[11] / DEG_L;
    R.lat2 = atan2l(sphi, cphi) / DEG_L; R.lon2 = lam / DEG_L; R.azi2 = alp / DEG_L;
    R.dlam = lamU / DEG_L; R.dalp = alpU / DEG_L;
    R.S12 = E.c2 * alpU + y[10];
    R.err = R.errS = R.errm = 0;
    return R;
  }

  // reference solution with self-check.  Truncation error is far below round-off already at
  // H = Rmin/2 (measured), and smaller steps only accumulate more round-off, so: integrate with
  // H and H/2 and report their difference as the error estimate; one more halving if that
  // exceeds `target`.
  OdeResult direct(L lat1, L lon1, L azi1, L s12, L H = 0, L target = 1e-11L) const {
    L Rmin = std::min(E.b * E.b / E.a, E.a * E.a / E.b);
    if (H <= 0) H = 0.5L * Rmin;
    OdeResult A = run(lat1, lon1, azi1, s12, H);
    for (int it = 0; it < 2; ++it) {
      H /= 2;
      OdeResult B = run(lat1, lon1, azi1, s12, H);
      B.err = dist3(A.r, B.r) + E.a * dist3(A.v, B.v);
      B.errS = fabsl(A.S12 - B.S12);
      B.errm = fabsl(A.m12 - B.m12) + E.a * (fabsl(A.M12 - B.M12) + fabsl(A.M21 - B.M21));
      A = B;
      if (A.err <= target && A.errm <= 10 * target) break;
    }
    return A;
  }
};

// geographic (deg) -> Cartesian on the ellipsoid surface, and direction vector of an azimuth
inline void to_cart(const Ellipsoid& E, L lat, L lon, L* r) {
  L sphi, cphi, sl, cl; Ode::sincosd(lat, sphi, cphi); Ode::sincosd(lon, sl, cl);
  L nu = E.a / sqrtl(1 - E.e2 * sphi * sphi);
  r[0] = nu * cphi * cl; r[1] = nu * cphi * sl; r[2] = nu * (1 - E.e2) * sphi;
}
inline void dir_vec(L lat, L lon, L azi, L* v) {
  L sphi, cphi, sl, cl, sa, ca; Ode::sincosd(lat, sphi, cphi); Ode::sincosd(lon, sl, cl); Ode::sincosd(azi, sa, ca);
  v[0] = sa * (-sl) + ca * (-sphi * cl);
  v[1] = sa * (cl) + ca * (-sphi * sl);
  v[2] = ca * cphi;
}
inline L dist3(const L* p, const L* q) {
  L dx = p[0] - q[0], dy = p[1] - q[1], dz = p[2] - q[2];
  return sqrtl(dx * dx + dy * dy + dz * dz);
}

}  // namespace ref
