// Self-validation of R-TM (ref/tm.hpp); not run by any check.
//   g++ -std=gnu++17 -O2 -I/verif ref/tm_selftest.cpp -o /tmp/tm_selftest && /tmp/tm_selftest
// (a) definitional map (complex Newton path following + complex Gauss-Legendre) against (b) Krueger series to
// order 30, wherever the estimated truncation of (b) is < 1e-13 m; quarter meridian by quadrature against the
// rectifying-radius series; direct against re-routed paths; Re W = Mq on the meridian 90 degrees from lon0.
#include "ref/tm.hpp"
#include <random>
using namespace rtm;
int main() {
  std::mt19937_64 g(42); std::uniform_real_distribution<double> U(0, 1);
  double fs[] = {1 / 298.257223563, 0.01, -0.01, 0.001, -0.003, 0, 0.02, 0.1, 1e-6};
  L gmx = 0, gmg = 0, gmk = 0, gmr = 0, gm90 = 0;
  for (double f : fs) {
    TM tm(6378137.0L, f, 0.9996L);
    printf("f=%g  Mq(quadrature)-A30*pi/2 = %.3Le m   branch longitude %.6Lf deg\n", f, tm.Mq - tm.A30 * PI / 2, tm.lamb / DEG);
    for (double band : {35.0, 60.0, 75.0, 90.0}) {
      L mx = 0, mg = 0, mk = 0, mr = 0; int nref = 0, nn = 0, nr = 0;
      for (int i = 0; i < 3000; ++i) {
        double lat = U(g) * 180 - 90, dl = (U(g) * 2 - 1) * band;
        if (i % 10 == 0) lat = 90 - std::pow(10., -U(g) * 14);
        if (i % 10 == 1) lat = (U(g) * 2 - 1) * std::pow(10., -U(g) * 12);
        Out o = tm.forward(lat, dl); SeriesOut s = tm.forward_series(lat, dl);
        if (!o.ok) { ++nref; continue; }
        if (!(s.tail30 < 1e-13L)) continue;
        ++nn; L d = hypotl(o.x - s.x, o.y - s.y);
        mx = std::max(mx, d); mg = std::max(mg, fabsl(o.gamma - s.gamma)); mk = std::max(mk, fabsl(o.k / s.k - 1));
        if (o.rerouted) { ++nr; mr = std::max(mr, d); }
      }
      printf("   |dlon|<=%g: compared %d (re-routed %d) refused %d  max|a-b| %.2Le m (re-routed %.2Le)  dgamma %.2Le deg  dk %.2Le\n", band, nn, nr, nref, mx, mr, mg, mk);
      gmx = std::max(gmx, mx); gmg = std::max(gmg, mg); gmk = std::max(gmk, mk); gmr = std::max(gmr, mr);
    }
    if (f >= 0) for (int i = 0; i < 200; ++i) { double lat = 0.5 + U(g) * 89; Out o = tm.forward(lat, 90.0L); if (o.ok) gm90 = std::max(gm90, fabsl(o.y - tm.k0 * tm.Mq)); }
  }
  printf("OVERALL max |a-b| = %.3Le m (%.4Lf nm), re-routed %.3Le m, dgamma %.3Le deg, dk %.3Le; |y - k0 Mq| on dlon = 90: %.3Le m\n", gmx, gmx * 1e9, gmr, gmg, gmk, gm90);
  return gmx < 1e-10L ? 0 : 1;
}
