// R-MP (DESIGN 1.4): auxiliary latitudes and ellipsoid measures from their definitions in 50-digit
// arithmetic.  Plain long double API; the implementation (Boost.Multiprecision) is in ref/aux_ref.cpp
// (list it under "extra_src" in the spec).  Nothing here shares a formula with AuxLatitude.cpp:
//   parametric / geocentric / conformal (isometric) latitude: textbook closed forms,
//   rectifying latitude and meridian distance: Int sqrt(a^2 sin^2 beta + b^2 cos^2 beta) d beta by adaptive
//     Gauss-Kronrod quadrature (integrated from the equator or from the pole, whichever is nearer, so
//     the tangent keeps its relative accuracy from 1e-300 to 1e300),
//   authalic latitude: zone / polar-cap area integrals by quadrature,
//   inverses: Newton on the integral itself (or on asinh(tan phi) for the conformal latitude) in 50 digits,
//   derivatives: radii of curvature (d m = rho d phi, d psi = rho d phi / (nu cos phi), d A = nu cos phi rho d phi).
// A function returns false when a quadrature or Newton iteration did not converge; the caller SKIPs.
#pragma once
#include <memory>

namespace ref {
namespace mpx { struct EllMP; }
namespace aux {

typedef long double L;
enum { PHI = 0, BETA = 1, THETA = 2, MU = 3, CHI = 4, XI = 5, NAUX = 6 };

struct LatFuncs {            // everything Ellipsoid.hpp offers at one geographic latitude (degrees in [-90,90])
  L beta, theta, mu, chi, xi;   // degrees
  L psi;                        // isometric latitude, degrees (+-infinity at the poles)
  L circle_radius, circle_height, merid_dist, rho, nu;
};

// conditioning of one conversion: tau = tan(phi) and the logarithmic derivatives
// L_k = d ln tan(zeta_k) / d ln tan(phi) of the two auxiliary latitudes involved, psi = isometric latitude
struct ConvInfo { L tau, L_from, L_to, psi; };

class Ell {
 public:
  Ell(double a, double f);                       // semi-axes a and a(1-f), both taken exactly
  static Ell from_axes(double a, double b);
  bool ok() const;                               // a, b positive and finite, measures converged
  const mpx::EllMP& impl() const { return *p_; }
  // shape and size (rounded from 50 digits)
  L a() const; L b() const; L f() const; L fp() const; L n() const; L e2() const; L ep2() const; L epp2() const;
  L quarter_meridian() const; L rect_radius() const; L area() const; L authalic_r2() const; L volume() const;
  // |tan| of the auxiliary latitude `to` for the auxiliary latitude `from` whose |tan| is |y|/|x| (the
  // quotient is formed in 50 digits; x != 0, y != 0 finite).  dtan (optional, from == PHI only) is
  // d tan(eta) / d tan(phi); with x == 0 (from == PHI) only dtan (its limit at the pole) is returned.
  bool conv(int from, int to, double y, double x, L& tan_out, L* dtan = nullptr, struct ConvInfo* info = nullptr) const;
  // degree-valued conversion; zeta any finite angle, quadrant kept, whole turns kept
  bool conv_deg(int from, int to, double zeta_deg, L& eta_deg) const;
  bool lat_funcs(double phi_deg, LatFuncs& out) const;
  bool inv_isometric(double psi_deg, L& phi_deg) const;
  L normal_curv_radius(double phi_deg, double azi_deg) const;   // Euler: 1/(cos^2 az/rho + sin^2 az/nu)
 private:
  Ell() {}
  std::shared_ptr<mpx::EllMP> p_;
};

// flattening / eccentricity interconversions from their definitions (argument exact, 50 digits).
// which: 0 fp->f, 1 f->fp, 2 n->f, 3 f->n, 4 e2->f, 5 f->e2, 6 ep2->f, 7 f->ep2, 8 epp2->f, 9 f->epp2
L shape_conv(int which, double x);

// self-validation at setup (DESIGN 1.4 last column): returns the worst relative discrepancy found between
//   quadrature and closed forms (quarter meridian vs Boost ellint_2, area vs Snyder 3-12 form, authalic
//   latitude vs closed form, derivatives vs central differences, round trips, xi(90)=90 limits)
// and writes a human readable report into `report` (if non-null).
double selfcheck(char* report, int reportlen);

}  // namespace aux
}  // namespace ref
