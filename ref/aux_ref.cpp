// R-MP implementation, see ref/aux_ref.hpp
#include "ref/aux_ref.hpp"
#include "ref/aux_impl.hpp"

#include <boost/math/special_functions/ellint_2.hpp>
#include <cmath>
#include <cstdio>
#include <string>

namespace ref {
namespace aux {

using mpx::mp;
using mpx::EllMP;
using mpx::toL;

namespace {
// angle in degrees of a non-negative tangent, accurate near 0 and near 90
mp atand(const mp& t) {
  if (t <= 1) return atan(t) / mpx::deg();
  return 90 - atan(1 / t) / mpx::deg();
}
// tangent of an angle r in [0, 90] degrees (r exact), relative accuracy at both ends
mp tand(const mp& r) {
  if (r <= 45) return tan(r * mpx::deg());
  return 1 / tan((90 - r) * mpx::deg());
}
const mp& big() { static const mp b("1e60"); return b; }   // stands for tan(90 deg) in limits
}  // namespace

Ell::Ell(double a, double f) : p_(std::make_shared<EllMP>()) {
  if (std::isfinite(a) && std::isfinite(f)) p_->init(mp(a), mp(a) * (1 - mp(f)));
}
Ell Ell::from_axes(double a, double b) {
  Ell e; e.p_ = std::make_shared<EllMP>();
  if (std::isfinite(a) && std::isfinite(b)) e.p_->init(mp(a), mp(b));
  return e;
}
bool Ell::ok() const { return p_->ok && p_->measures_ok; }
L Ell::a() const { return toL(p_->a); }
L Ell::b() const { return toL(p_->b); }
L Ell::f() const { return toL(p_->f); }
L Ell::fp() const { return toL((p_->a - p_->b) / p_->b); }
L Ell::n() const { return toL(p_->n); }
L Ell::e2() const { return toL(p_->e2); }
L Ell::ep2() const { return toL(p_->ep2); }
L Ell::epp2() const { return toL((p_->a - p_->b) * (p_->a + p_->b) / (p_->a * p_->a + p_->b * p_->b)); }
L Ell::quarter_meridian() const { return toL(p_->Q); }
L Ell::rect_radius() const { return toL(p_->Q / mpx::half_pi()); }
L Ell::area() const { return toL(4 * mpx::pi() * p_->Ap); }
L Ell::authalic_r2() const { return toL(p_->Ap); }
L Ell::volume() const { return toL(4 * mpx::pi() * p_->a * p_->a * p_->b / 3); }

bool Ell::conv(int from, int to, double y, double x, L& tan_out, L* dtan, ConvInfo* info) const {
  if (!ok() || from < 0 || from >= NAUX || to < 0 || to >= NAUX) return false;
  const EllMP& E = *p_;
  if (x == 0) {                 // pole: only the limit of the derivative is defined
    if (from != PHI || !dtan) return false;
    mp d; if (!E.dforward(to, big(), d)) return false;
    *dtan = toL(d); tan_out = INFINITY; return true;
  }
  mp t = boost::multiprecision::abs(mp(y) / mp(x)), tau, out;
  if (!(t > 0)) return false;
  if (from == to) out = t;
  else {
    if (!E.inverse(from, t, tau)) return false;
    if (!E.forward(to, tau, out)) return false;
  }
  tan_out = toL(out);
  if (dtan) {
    if (from != PHI) return false;
    mp d; if (!E.dforward(to, t, d)) return false;
    *dtan = toL(d);
  }
  if (info) {
    if (from == to) tau = 0;
    if (from == to && !E.inverse(from, t, tau)) return false;
    mp df, dt;
    if (!E.dforward(from, tau, df) || !E.dforward(to, tau, dt)) return false;
    info->tau = toL(tau);
    info->L_from = toL(df * tau / t);
    info->L_to = toL(dt * tau / out);
    info->psi = toL(E.psi_of_tau(tau));
  }
  return true;
}

bool Ell::conv_deg(int from, int to, double zeta_deg, L& eta_deg) const {
  if (!ok() || !std::isfinite(zeta_deg) || from < 0 || from >= NAUX || to < 0 || to >= NAUX) return false;
  const EllMP& E = *p_;
  mp z(zeta_deg);
  mp m = floor(z / 360 + mp(1) / 2);
  mp z0 = z - 360 * m;                       // [-180, 180)
  int s = z0 < 0 ? -1 : 1;
  mp az = boost::multiprecision::abs(z0);
  bool second = az > 90;
  mp r = second ? mp(180 - az) : az;         // [0, 90]
  mp eta_r;
  if (r == 0) eta_r = 0;
  else if (r == 90) eta_r = 90;
  else {
    mp t = tand(r), tau, out;
    if (from == to) out = t;
    else {
      if (!E.inverse(from, t, tau)) return false;
      if (!E.forward(to, tau, out)) return false;
    }
    eta_r = atand(out);
  }
  mp eta0 = second ? mp(180 - eta_r) : eta_r;
  eta_deg = toL(s * eta0 + 360 * m);
  return true;
}

bool Ell::lat_funcs(double phi_deg, LatFuncs& o) const {
  if (!ok() || !(std::fabs(phi_deg) <= 90)) return false;
  const EllMP& E = *p_;
  int s = std::signbit(phi_deg) ? -1 : 1;
  mp r = boost::multiprecision::abs(mp(phi_deg));
  if (r == 0) {
    o.beta = o.theta = o.mu = o.chi = o.xi = o.psi = 0; o.circle_radius = toL(E.a); o.circle_height = 0;
    o.merid_dist = 0; o.rho = toL(E.a * E.e2m1); o.nu = toL(E.a);
    return true;
  }
  if (r == 90) {
    o.beta = o.theta = o.mu = o.chi = o.xi = 90 * s; o.psi = s * (L)INFINITY; o.circle_radius = 0;
    o.circle_height = s * toL(E.b); o.merid_dist = s * toL(E.Q); o.rho = o.nu = toL(E.a * E.a / E.b);
    return true;
  }
  mp tau = tand(r), t;
  mp tb = E.tbeta(tau), hb = sqrt(1 + tb * tb);
  o.beta = s * toL(atand(tb));
  o.theta = s * toL(atand(E.ttheta(tau)));
  if (!E.tmu(tau, t)) return false;
  o.mu = s * toL(atand(t));
  mp psi = E.psi_of_tau(tau);
  o.chi = s * toL(atand(sinh(psi)));
  o.psi = s * toL(psi / mpx::deg());
  if (!E.txi(tau, t)) return false;
  o.xi = s * toL(atand(t));
  o.circle_radius = toL(E.a / hb);
  o.circle_height = s * toL(E.b * tb / hb);
  mp m; if (!E.merid(tau, m)) return false;
  o.merid_dist = s * toL(m);
  o.rho = toL(E.rho(tau)); o.nu = toL(E.nu(tau));
  return true;
}

bool Ell::inv_isometric(double psi_deg, L& phi_deg) const {
  if (!ok() || std::isnan(psi_deg)) return false;
  int s = std::signbit(psi_deg) ? -1 : 1;
  if (psi_deg == 0) { phi_deg = 0; return true; }
  if (std::isinf(psi_deg)) { phi_deg = 90 * s; return true; }
  mp psi = boost::multiprecision::abs(mp(psi_deg)) * mpx::deg();
  mp t = sinh(psi), tau;
  if (!p_->inverse(CHI, t, tau)) return false;
  phi_deg = s * toL(atand(tau));
  return true;
}

L Ell::normal_curv_radius(double phi_deg, double azi_deg) const {
  const EllMP& E = *p_;
  mp sp, cp, sa, ca;
  mpx::sincosd(mp(phi_deg), sp, cp); mpx::sincosd(mp(azi_deg), sa, ca);
  mp w = 1 - E.e2 * sp * sp;
  mp rho = E.a * E.e2m1 / (w * sqrt(w)), nu = E.a / sqrt(w);
  return toL(1 / (ca * ca / rho + sa * sa / nu));
}

L shape_conv(int which, double xd) {
  mp x(xd);
  switch (which) {
    case 0: return toL(x / (1 + x));                                      // b = 1, a = 1 + f'  => f = (a-b)/a
    case 1: return toL(x / (1 - x));                                      // a = 1, b = 1 - f   => f' = (a-b)/b
    case 2: return toL(2 * x / (1 + x));                                  // a = 1+n, b = 1-n
    case 3: return toL(x / (2 - x));                                      // a = 1, b = 1-f => n = f/(2-f)
    case 4: return toL(-expm1(log1p(-x) / 2));                            // b/a = sqrt(1-e2)
    case 5: return toL(x * (2 - x));                                      // 1 - (1-f)^2
    case 6: return toL(-expm1(-log1p(x) / 2));                            // b/a = 1/sqrt(1+e'2)
    case 7: return toL(x * (2 - x) / ((1 - x) * (1 - x)));
    case 8: return toL(-expm1((log1p(-x) - log1p(x)) / 2));               // b^2/a^2 = (1-e''2)/(1+e''2)
    case 9: return toL(x * (2 - x) / (1 + (1 - x) * (1 - x)));
  }
  return NAN;
}

// ------------------------------------------------------------------------------------------------
double selfcheck(char* report, int reportlen) {
  using boost::multiprecision::abs;
  std::string rep;
  auto note = [&](const char* what, const mp& rel, mp& worst) {
    if (rel > worst) worst = rel;
    (void)what;
  };
  mp w_quad = 0, w_lat = 0, w_rt = 0, w_der = 0;
  const char* bas[] = {"0.01", "0.1", "0.5", "0.9", "0.99664718933525254", "1", "1.01", "2", "10", "100"};
  const char* taus[] = {"1e-300", "1e-10", "0.01", "0.5", "1", "2", "100", "1e10", "1e300"};
  for (const char* bs : bas) {
    EllMP E; E.init(mp(1), mp(bs));
    if (!E.measures_ok) { w_quad = 1; continue; }
    // (a) quarter meridian vs Boost complete elliptic integral of the second kind
    mp Qb = E.sgn >= 0 ? mp(E.a * boost::math::ellint_2(E.ee)) : mp(E.b * boost::math::ellint_2(mp(sqrt(1 - E.a * E.a / (E.b * E.b)))));
    note("Q", abs(E.Q / Qb - 1), w_quad);
    // (b) area vs closed form (Snyder 3-12 with sin phi = 1)
    mp at = E.sgn == 0 ? mp(1) : (E.sgn > 0 ? mp(atanh(E.ee) / E.ee) : mp(atan(E.ee) / E.ee));
    mp Apc = E.a * E.a / 2 * (1 + E.e2m1 * at);
    note("Ap", abs(E.Ap / Apc - 1), w_quad);
    for (const char* ts : taus) {
      mp tau(ts), t, back;
      // (c) authalic latitude vs closed form q(phi)/q(pi/2) (only where 1 - sin xi survives in 50 digits)
      if (tau <= 100) {
        mp sphi = tau / sqrt(1 + tau * tau), es = E.ee * sphi;
        mp q = sphi / (1 - E.e2 * sphi * sphi) + (E.sgn == 0 ? sphi : (E.sgn > 0 ? mp(atanh(es) / E.ee) : mp(atan(es) / E.ee)));
        mp qp = 1 / E.e2m1 + at;
        mp sxi = q / qp, txc = sxi / sqrt((1 - sxi) * (1 + sxi));
        if (E.txi(tau, t)) note("xi", abs(t / txc - 1), w_lat); else w_lat = 1;
      }
      // (d) meridian distance vs Boost incomplete E
      if (tau <= mp("1e10") && tau >= mp("1e-10")) {
        mp m; mp tb = E.tbeta(tau), beta = atan(tb);
        mp mb = E.sgn >= 0 ? mp(E.a * (boost::math::ellint_2(E.ee) - boost::math::ellint_2(E.ee, mp(mpx::half_pi() - beta))))
                           : mp(E.b * boost::math::ellint_2(mp(sqrt(1 - E.a * E.a / (E.b * E.b))), beta));
        if (E.merid(tau, m)) note("m", abs(m / mb - 1), w_lat); else w_lat = 1;
      }
      // (f) round trips, (e) derivatives vs central differences
      for (int k = 1; k < NAUX; ++k) {
        if (!E.forward(k, tau, t) || !E.inverse(k, t, back)) { w_rt = 1; continue; }
        note("rt", abs(back / tau - 1), w_rt);
        mp h("1e-12"), tp, tm, d;
        if (E.forward(k, tau * (1 + h), tp) && E.forward(k, tau * (1 - h), tm) && E.dforward(k, tau, d))
          note("der", abs((tp - tm) / (2 * tau * h) / d - 1), w_der);
        else w_der = 1;
      }
    }
  }
  char buf[512];
  std::snprintf(buf, sizeof buf,
                "aux selfcheck: quadrature vs Boost/closed form (Q, area) %.2e; latitudes (xi closed form, m vs ellint_2) %.2e; "
                "round trips %.2e; derivatives vs central difference %.2e",
                (double)w_quad, (double)w_lat, (double)w_rt, (double)w_der);
  if (report && reportlen > 0) std::snprintf(report, (size_t)reportlen, "%s", buf);
  mp worst = w_quad; if (w_lat > worst) worst = w_lat; if (w_rt > worst) worst = w_rt;
  mp wd = w_der * mp("1e-8");   // central difference: truncation ~1e-24, function noise ~1e-28 => only 1e-20 asked
  if (wd > worst) worst = wd;
  return (double)worst;
}

}  // namespace aux
}  // namespace ref
