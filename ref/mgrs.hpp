// R-GRID for MGRS (DESIGN 1.4, C05): reference encoder/decoder written from the description in MGRS.hpp
// and the MGRS standard it cites (TM8358.1 ch. 3): column letter sets by zone mod 3, row alphabet of
// period 20 starting at the equator (shifted by 5 letters in even zones), latitude bands C..X of 8 deg
// (X: 12 deg), UPS letter tables; digits by exact truncation of floor(1e6 x) computed from the exact
// value of the double; legality of a 100 km block for a band letter decided *geometrically*.
//
// Latitudes: the candidate latitude of a grid point is taken from UTMUPS::Reverse and then *certified*
// by an independent forward mapping (order-30 Krueger series in long double, ref/tm.hpp; closed-form
// polar stereographic for UPS): the distance between the forward image and the grid point bounds the
// error of the candidate.  It is used only to classify a point/corner into a band with a 10 nm guard
// (documented: "within 5 nm of a band boundary", K = 2); an uncertified latitude gives "not judged".
#pragma once
#include <cmath>
#include <string>
#include <vector>

#include <GeographicLib/UTMUPS.hpp>

#include "ref/grid.hpp"
#include "ref/tm.hpp"

namespace mref {
using grid::Q; using grid::Z;
typedef long double L;

static const char* const UTM_COLS[3] = {"ABCDEFGH", "JKLMNPQR", "STUVWXYZ"};   // zone mod 3 = 1, 2, 0
static const char* const UTM_ROWS = "ABCDEFGHJKLMNPQRSTUV";                    // 20 rows of 100 km, A at the equator in odd zones
static const char* const UTM_BANDS = "CDEFGHJKLMNPQRSTUVWX";                   // 8 deg from 80S; X = 72..84
static const char* const UPS_BANDS = "ABYZ";                                   // south-west, south-east, north-west, north-east
static const char* const UPS_COLS[4] = {"JKLPQRSTUXYZ", "ABCFGHJKLPQR", "RSTUXYZ", "ABCFGHJ"};
static const char* const UPS_ROWS[2] = {"ABCDEFGHJKLMNPQRSTUVWXYZ", "ABCDEFGHJKLMNP"};   // south, north
static const int UPS_MIN[2] = {8, 13};     // first 100 km index of the UPS square (south 800 km, north 1300 km)
static const int UPS_MAX[2] = {32, 27};    // one past the last index (3200 km, 2700 km)
static const int UPS_MID = 20;             // 2000 km: false easting/northing, west/east split
static const long long TILE_UM = 100000000000LL;   // 100 km in micrometres

static const L WGS84_A = 6378137.0L, WGS84_F = 1 / 298.257223563L, UTM_K0 = 0.9996L, UPS_K0 = 0.994L;
static const L M_PER_DEG_MIN = 110000.0L;  // lower bound of the meridian arc per degree (makes the angular guard generous)
static const L BAND_GUARD_M = 10e-9L;      // 2 x the documented 5 nm

// ---------------------------------------------------------------- certified latitudes
struct LatC { bool ok = false; L lat = 0, lon = 0, err_m = 0; };
inline const rtm::TM& utm_tm() { static const rtm::TM t(WGS84_A, WGS84_F, UTM_K0); return t; }
// x = easting, yn = northing measured from the equator (negative in the southern hemisphere); any zone
inline LatC utm_lat(double x, double yn) {
  LatC r; double lat = 0, lon = 0;
  try { GeographicLib::UTMUPS::Reverse(31, true, x, yn, lat, lon); } catch (const std::exception&) { return r; }
  if (!(std::fabs(lat) <= 90) || !std::isfinite(lon)) return r;
  rtm::SeriesOut s = utm_tm().forward_series(lat, (L)lon - 3);
  if (!s.ok || !(s.tail30 < 1e-10L)) return r;
  r.err_m = hypotl(500000 + s.x - (L)x, s.y - (L)yn) + s.tail30 + 1e-10L;
  r.lat = lat; r.lon = lon; r.ok = r.err_m < 1e-7L;      // candidate worse than 100 nm: not usable (C04's subject)
  return r;
}
inline LatC ups_lat(bool northp, double x, double y) {
  LatC r; double lat = 0, lon = 0;
  try { GeographicLib::UTMUPS::Reverse(0, northp, x, y, lat, lon); } catch (const std::exception&) { return r; }
  if (!(std::fabs(lat) <= 90) || !std::isfinite(lon)) return r;
  rtm::PSOut p = rtm::polar_stereo(WGS84_A, WGS84_F, UPS_K0, northp, lat, lon);
  r.err_m = hypotl(2000000 + p.x - (L)x, 2000000 + p.y - (L)y) + 1e-10L;
  r.lat = lat; r.lon = lon; r.ok = r.err_m < 1e-7L;
  return r;
}
inline int band_of(L lat) { L b = floorl((lat + 80) / 8); return b < 0 ? 0 : b > 19 ? 19 : (int)b; }   // C = 0 .. X = 19

// ---------------------------------------------------------------- geometry of 100 km blocks
// corner (xi * 100 km, r * 100 km from the equator), xi = 1..9, r = -90..95
inline const LatC& corner(int xi, int r) {
  static LatC tab[10][186]; static bool have[10][186];
  LatC& c = tab[xi][r + 90];
  if (!have[xi][r + 90]) { c = utm_lat(xi * 100000.0, r * 100000.0); have[xi][r + 90] = true; }
  return c;
}
// does the block col c (0..7: eastings (c+1)..(c+2) x 100 km), row r (northings r..r+1 x 100 km from the equator)
// have a part in band b (0..19)?  1 yes, 0 no, -1 not judged (a corner within the guard of a band edge, or uncertified)
// The latitude extremes over a block are attained at its corners: 500 km (the central meridian) is a block edge.
inline int block_in_band(int c, int r, int b, bool* near_edge = nullptr) {
  if (near_edge) *near_edge = false;
  if ((b >= 10) != (r >= 0)) return 0;          // the equator is a row edge and the M/N band edge: exact
  if (r < -90 || r > 94 || c < 0 || c > 7) return 0;
  L lmin = 1e9, lmax = -1e9, err = 0;
  for (int i = 0; i < 2; ++i) for (int j = 0; j < 2; ++j) {
    const LatC& k = corner(c + 1 + i, r + j);
    if (!k.ok) return -1;
    lmin = std::min(lmin, k.lat); lmax = std::max(lmax, k.lat); err = std::max(err, k.err_m);
  }
  bool has_lo = b != 0 && b != 10, has_hi = b != 19 && b != 9;   // C and X extend to the northing limits
  L blo = 8 * b - 80, bhi = 8 * b - 72;
  L tol = (BAND_GUARD_M + err) / M_PER_DEG_MIN;
  if ((has_lo && fabsl(lmax - blo) <= tol) || (has_hi && fabsl(lmin - bhi) <= tol)) { if (near_edge) *near_edge = true; return -1; }
  // block is half open (upper edges excluded), band includes its southern edge: with the guard above strict tests suffice
  return ((!has_lo || lmax > blo) && (!has_hi || lmin < bhi)) ? 1 : 0;
}
// true row (from the equator) of the block with row-letter index ri (0..19) in `zone`, band b, column c:
//  1 legal (row in `r`), 0 illegal, -1 not judged
inline int resolve_row(int zone, int b, int c, int ri, int& r) {
  int base = ((ri - (zone % 2 == 0 ? 5 : 0)) % 20 + 20) % 20;   // row index mod 20 counted from the equator
  int found = 0; bool unj = false;
  for (int k = base - 100; k <= 94; k += 20) {
    if (k < -90) continue;
    int t = block_in_band(c, k, b);
    if (t < 0) unj = true;
    if (t > 0) { ++found; r = k; }
  }
  if (unj || found > 1) return -1;
  return found;
}

// ---------------------------------------------------------------- decoder
struct Dec {
  int zone = 0; bool northp = false; bool gridzone = false; int prec = 0;
  int band = 0;          // UTM 0..19, UPS 0..3
  Q x0, y0, size;        // SW corner [m] (southern UTM northings include the 10 000 km false northing) and side
  bool lower = false;    // contained lower-case letters (the header is silent on case: acceptance not judged)
};
enum DSt { D_VALID, D_MARKER, D_INVALID, D_UNJUDGED };
inline DSt decode(const std::string& str, Dec& d) {
  if (grid::prefix_ci(str, "INV")) return D_MARKER;
  d.lower = false;
  for (char ch : str) if (ch >= 'a' && ch <= 'z') d.lower = true;
  std::string s = grid::upper(str);
  size_t p = 0; int zone = 0;
  while (p < s.size() && s[p] >= '0' && s[p] <= '9') { if (p >= 2) return D_INVALID; zone = 10 * zone + (s[p] - '0'); ++p; }
  bool utm = p > 0;
  if (utm && !(zone >= 1 && zone <= 60)) return D_INVALID;
  if (p >= s.size()) return D_INVALID;
  int b = grid::find_ci(utm ? UTM_BANDS : UPS_BANDS, s[p]);
  if (b < 0 || s[p] != (utm ? UTM_BANDS : UPS_BANDS)[b]) return D_INVALID;
  ++p;
  d.zone = zone; d.band = b; d.northp = utm ? b >= 10 : b >= 2;
  if (p == s.size()) { d.gridzone = true; d.prec = -1; return D_VALID; }
  d.gridzone = false;
  if (s.size() - p < 2) return D_INVALID;
  const char* cols = utm ? UTM_COLS[(zone - 1) % 3] : UPS_COLS[b];
  const char* rows = utm ? UTM_ROWS : UPS_ROWS[d.northp];
  const char* cp = s[p] ? std::strchr(cols, s[p]) : nullptr; ++p;
  const char* rp = s[p] ? std::strchr(rows, s[p]) : nullptr; ++p;
  if (!cp || !rp) return D_INVALID;
  int c = (int)(cp - cols), ri = (int)(rp - rows);
  size_t nd = s.size() - p;
  if (!grid::all_digits(s, p) || nd % 2 || nd > 22) return D_INVALID;
  int prec = (int)(nd / 2);
  long long xh, yh;
  if (utm) {
    int r; int t = resolve_row(zone, b, c, ri, r);
    if (t < 0) return D_UNJUDGED;
    if (t == 0) return D_INVALID;
    xh = c + 1; yh = d.northp ? r : r + 100;
  } else {
    bool east = b & 1;
    xh = (east ? UPS_MID : UPS_MIN[d.northp]) + c; yh = UPS_MIN[d.northp] + ri;
  }
  d.size = Q(100000) / grid::pow10q(prec);
  d.x0 = Q(xh * 100000) + Q(grid::digits_value(s, p, (size_t)prec)) * d.size;
  d.y0 = Q(yh * 100000) + Q(grid::digits_value(s, p + (size_t)prec, (size_t)prec)) * d.size;
  d.prec = prec;
  return D_VALID;
}

// ---------------------------------------------------------------- encoder (Forward reference)
struct Fwd {
  enum St { OK, OUT_OF_RANGE, UNJUDGED } st = OUT_OF_RANGE;
  bool utm = false; int zone = 0; bool northp = false;      // hemisphere after folding the northing
  std::vector<long long> X, Y;      // floor(1e6 x), floor(1e6 y) [um]: first = exact truncation, then the round-off alternatives
  std::vector<int> bands;           // allowed band indices (UTM), first = band of the certified latitude
  bool x_edge = false, y_edge = false, nudged = false, folded = false;
  L lat = 0;
};
// finest index of coordinate v (exact) with the 2-ulp round-off alternatives, inside [lo_um, hi_um)
inline void axis_um(const Q& v, const Q& delta, long long lo_um, long long hi_um, std::vector<long long>& out, bool& onedge) {
  Q t = v * 1000000; Z n = grid::floorq(t); long long k = n.convert_to<long long>();
  out.clear(); out.push_back(k);
  onedge = grid::is_integer(t);
  if (onedge) return;
  if ((t - Q(n)) / 1000000 <= delta && k - 1 >= lo_um) out.push_back(k - 1);
  if ((Q(n + 1) - t) / 1000000 <= delta && k + 1 < hi_um) out.push_back(k + 1);
}
inline Fwd forward_ref(int zone, bool northp, double x, double y) {
  Fwd f; f.zone = zone; f.utm = zone != 0; f.northp = northp;
  if (!(zone >= 0 && zone <= 60) || !std::isfinite(x) || !std::isfinite(y)) return f;
  Q qx = grid::exact(x), qy = grid::exact(y);
  long long xlo, xhi, ylo, yhi;     // documented closed ranges, in um
  if (f.utm) { xlo = 1 * TILE_UM; xhi = 9 * TILE_UM; ylo = (northp ? -90 : 10) * TILE_UM; yhi = (northp ? 95 : 195) * TILE_UM; }
  else { xlo = ylo = UPS_MIN[northp] * TILE_UM; xhi = yhi = UPS_MAX[northp] * TILE_UM; }
  Q um = 1000000;
  if (qx * um < Q(xlo) || qx * um > Q(xhi) || qy * um < Q(ylo) || qy * um > Q(yhi)) return f;
  // easting
  Q dx = grid::exact(2 * grid::ulp(x));
  if (qx * um == Q(xhi)) { f.X.assign(1, xhi - 1); f.nudged = true; }       // closed upper edge: placed just inside
  else axis_um(qx, dx, xlo, xhi, f.X, f.x_edge);
  // northing: fold to the hemisphere the point is in
  double yn;                       // northing from the equator, for the latitude
  if (!f.utm) {
    if (qy * um == Q(yhi)) { f.Y.assign(1, yhi - 1); f.nudged = true; }
    else axis_um(qy, grid::exact(2 * grid::ulp(y)), ylo, yhi, f.Y, f.y_edge);
    yn = y;
  } else {
    const long long S = 100 * TILE_UM;     // southern false northing
    Q rel = northp ? qy : Q(qy - 10000000);
    yn = northp ? y : y - 10000000.0;      // exact (see C05.cpp)
    if (!northp && qy == 10000000) { f.northp = false; f.Y.assign(1, S - 1); f.nudged = true; }            // "placed in latitude band M"
    else if (qy * um == Q(yhi)) { f.northp = true; f.Y.assign(1, 95 * TILE_UM - 1); f.nudged = true; }
    else if (rel >= 0) {
      f.northp = true; f.folded = !northp;
      axis_um(rel, grid::exact(2 * grid::ulp(std::max(std::fabs(y), std::fabs(yn)))), 0, 95 * TILE_UM, f.Y, f.y_edge);
    } else {
      f.northp = false; f.folded = northp;
      axis_um(Q(rel + 10000000), grid::exact(2 * grid::ulp(std::max(std::fabs(y), 1e7))), 10 * TILE_UM, S, f.Y, f.y_edge);
    }
  }
  // band of the true latitude
  if (f.utm) {
    LatC c = utm_lat(x, yn);
    if (!c.ok) { f.st = Fwd::UNJUDGED; return f; }
    f.lat = c.lat;
    L tol = (BAND_GUARD_M + c.err_m) / M_PER_DEG_MIN;
    int lo = f.northp ? 10 : 0, hi = f.northp ? 19 : 9;
    auto cl = [&](int b) { return b < lo ? lo : b > hi ? hi : b; };
    int b0 = cl(band_of(c.lat)), b1 = cl(band_of(c.lat - tol)), b2 = cl(band_of(c.lat + tol));
    f.bands.push_back(b0); if (b1 != b0) f.bands.push_back(b1); if (b2 != b0 && b2 != b1) f.bands.push_back(b2);
  }
  f.st = Fwd::OK;
  return f;
}
inline std::string digits11(long long v, int prec) {
  char b[16]; std::snprintf(b, sizeof b, "%011lld", v); return std::string(b, (size_t)prec);
}
// the MGRS string for finest indices (X, Y) [um], hemisphere and band; prec = -1..11
inline std::string build(const Fwd& f, long long X, long long Y, int band, int prec) {
  std::string s;
  long long xh = X / TILE_UM, yh = Y / TILE_UM;
  if (f.utm) {
    char z[8]; std::snprintf(z, sizeof z, "%02d", f.zone); s = z;
    s += UTM_BANDS[band];
    if (prec < 0) return s;
    s += UTM_COLS[(f.zone - 1) % 3][xh - 1];
    s += UTM_ROWS[(yh + (f.zone % 2 == 0 ? 5 : 0)) % 20];
  } else {
    bool east = xh >= UPS_MID; int b = (f.northp ? 2 : 0) + (east ? 1 : 0);
    s += UPS_BANDS[b];
    if (prec < 0) return s;
    s += UPS_COLS[b][xh - (east ? UPS_MID : UPS_MIN[f.northp])];
    s += UPS_ROWS[f.northp][yh - UPS_MIN[f.northp]];
  }
  s += digits11(X % TILE_UM, prec); s += digits11(Y % TILE_UM, prec);
  return s;
}

// MGRS::Decode reference: ^(\d{0,2}[A-HJ-NP-Za-hj-np-z])([A-HJ-NP-Za-hj-np-z]{2}(\d\d)*)?$  (I and O are not letters)
inline bool is_alpha_mgrs(char ch) { char u = grid::up(ch); return u >= 'A' && u <= 'Z' && u != 'I' && u != 'O'; }
inline bool split(const std::string& s, std::string& gz, std::string& blk, std::string& e, std::string& n) {
  size_t p = 0; while (p < s.size() && s[p] >= '0' && s[p] <= '9') ++p;
  if (p > 2 || p >= s.size() || !is_alpha_mgrs(s[p])) return false;
  size_t q = p; while (q < s.size() && is_alpha_mgrs(s[q])) ++q;
  if (!(q == p + 1 || q == p + 3)) return false;
  if (q == p + 1 && q < s.size()) return false;
  if (!grid::all_digits(s, q) || (s.size() - q) % 2) return false;
  gz = s.substr(0, p + 1); blk = s.substr(p + 1, q - (p + 1));
  e = s.substr(q, (s.size() - q) / 2); n = s.substr(q + (s.size() - q) / 2);
  return true;
}

}  // namespace mref
