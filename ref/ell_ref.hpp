// R-ELL (DESIGN 1.4): elliptic integrals and Jacobi elliptic functions in 50-digit arithmetic.
// Plain long double API; implementation in ref/ell_ref.cpp (Boost.Multiprecision + Boost.Math; list it
// under "extra_src").
//   Carlson RF RC RD RG RJ      : Boost.Math at 50 digits (independent duplication code), cross-checked
//                                 against the defining integrals (DLMF 19.16.1/2/5, 19.2.17, Carlson 1.5)
//                                 integrated over t = e^w by adaptive Gauss-Kronrod.
//   Legendre F E D Pi G H       : the DEFINING integrals by adaptive Gauss-Kronrod (algebraic integrands in
//                                 sin or cos of the amplitude, integrated from 0 or from pi/2 whichever is
//                                 nearer).  Works for k^2 < 0, alpha^2 < 0, k'^2 down to 1e-300 given
//                                 separately.  Cross-checked against Boost ellint_1/2/d/3 for 0 <= k^2 < 1.
//   Jacobi sn cn dn am          : Boost.Math jacobi_elliptic at 50 digits for 0 <= k^2 <= 1; for every k^2 <= 1
//                                 the inverse relation am(F(phi)) = phi with F from the quadrature.
// Nothing is shared with EllipticFunction.cpp (no duplication theorem, no Bulirsch/Landen, no AGM).
// A function returns false when it refuses (quadrature not converged, outside domain); the caller SKIPs.
#pragma once

namespace ref {
namespace ell {

typedef long double L;

// ---- Carlson symmetric integrals (Boost.Math, 50 digits).  Arguments exact doubles.
bool RF(double x, double y, double z, L& out);
bool RC(double x, double y, L& out);
bool RD(double x, double y, double z, L& out);
bool RG(double x, double y, double z, L& out);
bool RJ(double x, double y, double z, double p, L& out);

// ---- Legendre forms.  The parameters are those handed to EllipticFunction(k2, alpha2, kp2, alphap2).
// If k2 + kp2 != 1 exactly, the one of smaller magnitude defines the modulus (the other is its rounded
// complement), likewise for alpha2/alphap2: that is how the 4-argument constructor is meant to be used.
struct Par { double k2, kp2, alpha2, alphap2; };
inline Par par2(double k2, double alpha2) { Par p = {k2, 1 - k2, alpha2, 1 - alpha2}; return p; }
enum Kind { KF = 0, KE = 1, KD = 2, KPI = 3, KG = 4, KH = 5, NKIND = 6 };

bool complete(const Par& p, int kind, L& out);                         // +infinity where the integral diverges
bool incomplete(const Par& p, int kind, double phi, L& out);           // any real phi (radians)
bool incomplete_deg(const Par& p, int kind, double ang, L& out);       // phi = ang degrees (exact reduction)
bool incomplete_sc(const Par& p, int kind, double sn, double cn, L& out);   // phi = atan2(sn, cn) in (-pi, pi]
bool delta(const Par& p, int kind, double sn, double cn, L& out);      // pi X(phi) / (2 X) - phi, period pi
bool einv(const Par& p, double x, L& out);                              // phi with E(phi) = x
// Delta(phi) = sqrt(1 - k^2 sin^2 phi) for phi = atan2(sn, cn)
bool Delta(const Par& p, double sn, double cn, L& out);

// ---- Jacobi functions
// from the amplitude: x = F(phi); returns x rounded to double (xd) and am(xd), sn, cn, dn (first-order
// corrected for the rounding of x; second-order term < 1e-30)
bool jacobi_from_phi(const Par& p, double phi, double& xd, L& am, L& sn, L& cn, L& dn);
// Boost jacobi_elliptic, 0 <= k2 <= 1 (k'^2 >= 1e-40 or exactly 0)
bool jacobi(const Par& p, double x, L& am, L& sn, L& cn, L& dn);

// self-validation on a grid: Boost vs quadrature.  Returns the worst relative discrepancy; report text optional.
// part/nparts: evaluate only every nparts-th grid point (the Carlson integrals over 500 e-folds are slow)
double selfcheck(char* report, int reportlen, int part = 0, int nparts = 1);

}  // namespace ell
}  // namespace ref
