// R-MP rhumb reference, see ref/rhumb_ref.hpp
#include "ref/rhumb_ref.hpp"
#include "ref/aux_impl.hpp"

#include <cmath>

namespace ref {
namespace rhumb {

using mpx::mp;
using mpx::EllMP;
using mpx::toL;
using mpx::Quad;
using boost::multiprecision::abs;

namespace {

mp atand(const mp& t) { return t <= 1 ? mp(atan(t) / mpx::deg()) : mp(90 - atan(1 / t) / mpx::deg()); }
mp tand(const mp& r) { return r <= 45 ? mp(tan(r * mpx::deg())) : mp(1 / tan((90 - r) * mpx::deg())); }

struct Pt {
  int sg = 1; bool pole = false;
  mp tau, psi, m, v;        // of |lat|; psi, m are made signed by sg where used
};
bool point(const EllMP& E, double lat, Pt& p) {
  if (!(std::fabs(lat) <= 90)) return false;
  p.sg = std::signbit(lat) ? -1 : 1;
  mp r = abs(mp(lat));
  if (r == 90) { p.pole = true; p.m = E.Q; return true; }
  if (r == 0) { p.tau = 0; p.psi = 0; p.m = 0; p.v = 0; return true; }
  p.tau = tand(r);
  p.psi = E.psi_of_tau(p.tau);
  if (!E.merid(p.tau, p.m)) return false;
  p.v = log1p(p.tau * p.tau) / 2;
  return true;
}
// A(phi) psi'(phi) / tan(phi) as a function of v = -ln cos phi  [m^2]
struct AreaIntegrand {
  const EllMP* E;
  mp operator()(const mp& v) const {
    mp s2 = -expm1(-2 * v);
    mp w = 1 - E->e2 * s2;
    mp es = E->ee * sqrt(s2);
    mp at = (E->sgn == 0 || es == 0) ? mp(1) : (E->sgn > 0 ? mp(atanh(es) / es) : mp(atan(es) / es));
    return mp(E->b * E->b / 2 * (1 / w + at) * E->e2m1 / w);
  }
};
// area per radian of longitude between the equator and |phi| (closed form), tau = tan|phi|
mp zone_area(const EllMP& E, const mp& tau) {
  mp s2 = tau * tau / (1 + tau * tau), s = sqrt(s2), w = 1 - E.e2 * s2, es = E.ee * s;
  mp at = (E.sgn == 0 || es == 0) ? mp(1) : (E.sgn > 0 ? mp(atanh(es) / es) : mp(atan(es) / es));
  return mp(E.b * E.b / 2 * s * (1 / w + at));
}
bool area_int(const EllMP& E, const mp& v1, const mp& v2, mp& out) {
  if (v1 == v2) { out = 0; return true; }
  AreaIntegrand f; f.E = &E;
  Quad q = v1 < v2 ? mpx::gk(f, v1, v2) : mpx::gk(f, v2, v1);
  out = v1 < v2 ? q.val : mp(-q.val);
  return q.relerr < mpx::QUAD_ACCEPT;
}
// Small meridian step dm from the (signed) tangent t1: solve Int_{t1}^{t2} rho / (1 + t^2) dt = dm for t2 and return
// psi2 - psi1 = Int_{t1}^{t2} rho / (nu cos(phi) (1 + t^2)) dt, both as integrals over the (short) interval so that the
// differences keep their relative accuracy (nearly east-west courses, tiny distances).
bool small_step(const EllMP& E, const mp& t1, const mp& dm, mp& t2, mp& psi12, mp& Apsi) {
  auto gm = [&](const mp& t) { mp a = abs(t); return mp(E.rho(a) / (1 + t * t)); };
  auto gp = [&](const mp& t) { mp a = abs(t); return mp(E.rho(a) / E.nu(a) * sqrt(1 + t * t) / (1 + t * t)); };
  if (dm == 0) { t2 = t1; psi12 = 0; Apsi = 0; return true; }
  // the unknown is the increment d = t2 - t1 (kept as its own number: t1 + d would lose it); Int_{t1}^{t1+d} g = d Int_0^1 g(t1 + d u) du
  mp d = dm / gm(t1);
  bool ok = false;
  for (int it = 0; it < 60; ++it) {
    Quad q = mpx::gk([&](const mp& u) { return gm(mp(t1 + d * u)); }, mp(0), mp(1));
    if (!(q.relerr < mpx::QUAD_ACCEPT)) return false;
    mp r = d * q.val - dm;
    if (abs(r) <= mp("1e-40") * abs(dm)) { ok = true; break; }
    d -= r / gm(mp(t1 + d));
  }
  if (!ok) return false;
  t2 = t1 + d;
  Quad q = mpx::gk([&](const mp& u) { return gp(mp(t1 + d * u)); }, mp(0), mp(1));
  if (!(q.relerr < mpx::QUAD_ACCEPT)) return false;
  psi12 = d * q.val;
  // Int A dpsi over the step (A odd in the latitude), same variable
  Quad qa = mpx::gk([&](const mp& u) { mp t = t1 + d * u; return mp((t < 0 ? -1 : 1) * zone_area(E, mp(abs(t))) * gp(t)); }, mp(0), mp(1));
  if (!(qa.relerr < mpx::QUAD_ACCEPT) && qa.val != 0) return false;
  Apsi = d * qa.val;
  return true;
}
void twosum(double a, double b, double& s, double& e) {
  volatile double vs = a + b; s = vs;
  volatile double bb = s - a;
  volatile double t1 = s - bb;
  e = (a - t1) + (b - bb);
}

}  // namespace

bool is_tie(double lon1, double lon2, int& sign) {
  if (!std::isfinite(lon1) || !std::isfinite(lon2)) return false;
  double s, e; twosum(lon2, -lon1, s, e);
  sign = s > 0 ? 1 : (s < 0 ? -1 : 0);
  return e == 0 && std::fabs(std::remainder(s, 360.0)) == 180.0;
}

bool inverse(const aux::Ell& El, double lat1, double lon1, double lat2, double lon2, Inv& o) {
  if (!El.ok() || !std::isfinite(lon1) || !std::isfinite(lon2)) return false;
  const EllMP& E = El.impl();
  Pt p1, p2;
  if (!point(E, lat1, p1) || !point(E, lat2, p2)) return false;
  // longitude difference reduced to (-180, 180], exactly
  // lon2 - lon1 = ds + de exactly (two-sum); reduce the leading part exactly, then add the residual (keeps the relative
  // accuracy of a difference like 360 - 1e-262)
  double ds, de; twosum(lon2, -lon1, ds, de);
  mp k = floor(mp(ds) / 360 + mp(1) / 2);
  mp r = (mp(ds) - 360 * k) + mp(de);       // [-180, 180) up to the tiny residual
  int tsign; o.tie = is_tie(lon1, lon2, tsign);
  if (r >= 180) r -= 360;
  if (r < -180) r += 360;
  if (r == -180) {
    if (o.tie || de < 0) r = 180;           // de < 0: truly just below -180, i.e. just below +180 after wrapping
  }
  mp lam12 = r * mpx::deg();
  o.lon12 = toL(r); o.lam12 = toL(lam12);
  o.c2 = toL(E.Ap);
  o.pole1 = p1.pole; o.pole2 = p2.pole;
  o.eastwest = lat1 == lat2;
  mp m1 = p1.sg * p1.m, m2 = p2.sg * p2.m;
  o.m12 = toL(m2 - m1);
  o.psi1 = o.psi2 = o.psi12 = o.hyp = 0;
  if (p1.pole || p2.pole) {
    o.s12 = toL(abs(m2 - m1)); o.azi12 = m2 >= m1 ? 0 : 180; o.S12 = NAN;
    if (!p1.pole) o.psi1 = toL(p1.sg * p1.psi);
    if (!p2.pole) o.psi2 = toL(p2.sg * p2.psi);
    return true;
  }
  mp psi1 = p1.sg * p1.psi, psi2 = p2.sg * p2.psi;
  o.psi1 = toL(psi1); o.psi2 = toL(psi2);
  if (o.eastwest) {
    mp tb = E.tbeta(p1.tau), R = E.a / sqrt(1 + tb * tb);
    o.s12 = toL(R * abs(lam12));
    o.azi12 = lam12 > 0 ? 90 : (lam12 < 0 ? -90 : 0);
    o.S12 = toL(p1.sg * zone_area(E, p1.tau) * lam12);
    o.psi12 = 0; o.hyp = toL(abs(lam12));
    return true;
  }
  mp psi12 = psi2 - psi1, m12 = m2 - m1;
  if (psi12 == 0) return false;
  mp hyp = sqrt(lam12 * lam12 + psi12 * psi12);
  o.psi12 = toL(psi12); o.hyp = toL(hyp);
  o.azi12 = toL(atan2(lam12, psi12) / mpx::deg());
  o.s12 = toL(abs(m12) * hyp / abs(psi12));
  mp I;
  if (!area_int(E, p1.v, p2.v, I)) return false;
  o.S12 = toL(lam12 / psi12 * I);
  return true;
}

bool direct(const aux::Ell& El, double lat1, double azi12, double s12, Dir& o) {
  if (!El.ok() || !std::isfinite(azi12) || !std::isfinite(s12)) return false;
  const EllMP& E = El.impl();
  Pt p1;
  if (!point(E, lat1, p1)) return false;
  o.pole1 = p1.pole; o.c2 = toL(E.Ap);
  o.crosses = false; o.pole_margin = 0; o.lat2 = o.lon12 = o.S12 = NAN;
  o.mu1 = o.mu12 = o.dphi_dmu2 = o.cond_lon = o.cond_S = o.meansinxi = o.psi1 = o.psi2 = 0;
  mp sa, ca; mpx::sincosd(mp(azi12), sa, ca);
  mp m1 = p1.sg * p1.m;
  mp dm = mp(s12) * ca, m2 = m1 + dm;
  mp mu1 = 90 * m1 / E.Q, mu12 = 90 * dm / E.Q, mu2 = mu1 + mu12;
  o.mu1 = toL(mu1); o.mu12 = toL(mu12);
  o.pole_margin = toL(abs(mu2) - 90);
  if (p1.pole) {
    // only the latitude is well defined: along the meridian from the pole
    mp T = abs(m2);
    if (T <= E.Q) {
      mp tau2;
      if (T == E.Q) { o.lat2 = m2 > 0 ? 90 : -90; return true; }
      if (!(T > E.Q / 2 ? E.inv_merid_pole(mp(E.Q - T), tau2) : E.inv_merid(T, tau2))) return false;
      o.lat2 = toL((m2 < 0 ? -1 : 1) * atand(tau2));
      return true;
    }
  }
  if (abs(m2) >= E.Q) {
    o.crosses = true;
    mp kk = floor(mu2 / 360 + mp(1) / 2);
    mp mr = mu2 - 360 * kk;                         // [-180, 180)
    if (mr > 90) mr = 180 - mr; else if (mr < -90) mr = -180 - mr;
    int sg = mr < 0 ? -1 : 1;
    mp amr = abs(mr);
    if (amr == 90) { o.lat2 = 90 * sg; return true; }
    if (amr == 0) { o.lat2 = 0; return true; }
    mp T = E.Q * amr / 90, tau2;
    if (!(T > E.Q / 2 ? E.inv_merid_pole(mp(E.Q - T), tau2) : E.inv_merid(T, tau2))) return false;
    o.lat2 = toL(sg * atand(tau2));
    o.dphi_dmu2 = toL(E.Q / (mpx::half_pi() * E.rho(tau2)));
    return true;
  }
  int sg2 = m2 < 0 ? -1 : 1;
  mp T = abs(m2), tau2;
  mp psi1 = p1.sg * p1.psi, psi2, p12 = 0, Ap12 = 0;
  bool small = abs(dm) <= E.Q / 1000;
  if (small) {
    mp t2s;
    if (!small_step(E, mp(p1.sg * p1.tau), dm, t2s, p12, Ap12)) return false;
    sg2 = t2s < 0 ? -1 : 1; tau2 = abs(t2s);
    if (t2s == 0) sg2 = p1.sg;
    psi2 = psi1 + p12;
  } else {
    if (T == 0) tau2 = 0;
    else if (!(T > E.Q / 2 ? E.inv_merid_pole(mp(E.Q - T), tau2) : E.inv_merid(T, tau2))) return false;
    psi2 = sg2 * E.psi_of_tau(tau2);
  }
  o.lat2 = toL(sg2 * atand(tau2));
  o.psi1 = toL(psi1); o.psi2 = toL(psi2);
  mp psi12 = small ? p12 : mp(psi2 - psi1);
  mp v2 = log1p(tau2 * tau2) / 2;
  mp tb2 = E.tbeta(tau2), R2 = E.a / sqrt(1 + tb2 * tb2);
  mp G2 = E.Q / (mpx::half_pi() * R2);              // d psi / d mu at point 2
  o.dphi_dmu2 = toL(E.Q / (mpx::half_pi() * E.rho(tau2)));
  mp sxi2 = sg2 * zone_area(E, tau2) / E.Ap;
  mp lam12, S12, M;
  if (ca == 0) {
    mp tb1 = E.tbeta(p1.tau), R1 = E.a / sqrt(1 + tb1 * tb1);
    lam12 = mp(s12) * sa / R1;
    mp A1 = p1.sg * zone_area(E, p1.tau);
    S12 = A1 * lam12; M = A1 / E.Ap;
    // limit of tan(azi) (G2 - Gmean) for azi -> 90: (1/2) G' s12 sin(azi) (pi/2)/Q with dG/dmu = G^2 sin(phi)
    mp G1 = E.Q / (mpx::half_pi() * R1), sphi = p1.tau / sqrt(1 + p1.tau * p1.tau);
    o.cond_lon = toL(abs(G1 * G1 * sphi * mp(s12) * sa * mpx::half_pi() / E.Q) / 2);
    // d sin(xi)/d mu = (R rho / Ap) (d phi/d mu): the mean of sin(xi) moves by half of it
    mp dsxi = R1 * E.Q / (mpx::half_pi() * E.Ap);
    o.cond_S = toL(abs(lam12) * E.Ap * dsxi / 2 * mpx::deg());
  } else {
    mp ta = sa / ca;
    lam12 = ta * psi12;
    mp I;
    if (small) I = Ap12;
    else if (!area_int(E, p1.v, v2, I)) return false;
    S12 = ta * I;
    mp mu12rad = dm / E.Q * mpx::half_pi();
    mp tb1 = E.tbeta(p1.tau), R1 = E.a / sqrt(1 + tb1 * tb1);
    mp G1 = E.Q / (mpx::half_pi() * R1);
    mp Gm = mu12rad == 0 ? G1 : mp(psi12 / mu12rad);
    M = psi12 == 0 ? mp(p1.sg * zone_area(E, p1.tau) / E.Ap) : mp(I / (E.Ap * psi12));
    if (small && abs(G2 - Gm) <= mp("1e-20") * G2) {
      // short meridional extent: G2 - Gmean = (1/2) G' dmu and sin(xi2) - mean = (1/2) (d sin xi/d mu) dmu to first order
      // (the differences themselves would be lost in 50 digits); dG/dmu = G^2 sin(phi), d sin(xi)/d mu = R Q / ((pi/2) Ap)
      mp sphi = p1.sg * p1.tau / sqrt(1 + p1.tau * p1.tau);
      o.cond_lon = toL(abs(ta * G1 * G1 * sphi * mu12rad) / 2);
      mp dsxi = R1 * E.Q / (mpx::half_pi() * E.Ap);
      o.cond_S = toL(E.Ap * abs(ta * G1 * dsxi * mu12rad) / 2 * mpx::deg());
    } else {
      o.cond_lon = toL(abs(ta * (G2 - Gm)));
      o.cond_S = toL(E.Ap * abs(ta * G2 * (sxi2 - M)) * mpx::deg());
    }
  }
  o.lon12 = toL(lam12 / mpx::deg());
  o.S12 = toL(S12);
  o.meansinxi = toL(M);
  return true;
}

}  // namespace rhumb
}  // namespace ref
