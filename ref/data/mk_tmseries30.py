#!/usr/bin/env python3
"""One-off freeze tool (NOT run by any check): extracts the exact rational coefficients of the
30th-order Krueger series from GeographicLib's doc/tmseries30.html into tmseries30.txt.
usage: mk_tmseries30.py /repo/doc/tmseries30.html > tmseries30.txt
Line format:  <name> <j> <k> <num>/<den>     meaning coefficient of n^k in <name>[j]
  A 0 k    : A*(1+n)/a = sum_k c_k n^k  (rectifying radius, Krueger p.12 eq.5)
  alpha j k: forward series zeta = zeta' + sum_j alpha_j sin(2 j zeta')
  beta j k : reverse series zeta' = zeta - sum_j beta_j sin(2 j zeta)
"""
import re, sys
txt = open(sys.argv[1], encoding="latin-1").read()
pre = txt[txt.index("<pre>") + 5: txt.index("</pre>")]
pre = pre.replace("\n", " ")
out = []
# A
m = re.search(r"A = a/\(n \+ 1\) \* \((.*?)\);", pre)
body = m.group(1)
terms = re.findall(r"([+-]?)\s*(\d+)(?:/(\d+))?(?:\s*\*\s*n(?:\^(\d+))?)?", body)
for sg, num, den, pw in terms:
    if not num: continue
    out.append(("A", 0, int(pw) if pw else 0, ("-" if sg == "-" else "") + num + "/" + (den or "1")))
for name in ("alpha", "beta"):
    for m in re.finditer(name + r"\[(\d+)\]\s*=\s*(.*?);", pre):
        j = int(m.group(1)); body = m.group(2)
        for t in re.finditer(r"([+-]?)\s*(\d+)(?:/(\d+))?\s*\*\s*n(?:\^(\d+))?", body):
            sg, num, den, pw = t.groups()
            out.append((name, j, int(pw) if pw else 1, ("-" if sg == "-" else "") + num + "/" + (den or "1")))
print("# Krueger series to 30th order; frozen copy of the tables in GeographicLib doc/tmseries30.html")
print("# name j k num/den : coefficient of n^k in name[j]")
for o in out:
    print("%s %d %d %s" % o)
