// R-SH: reference spherical-harmonic sum and gradient (DESIGN 1.4).
//
//   V(x,y,z) = sum_l tau_l * sum_{n<=nmx} sum_{m<=min(n,mmx)} q^(n+1) (C_l[n,m] cos m lam + S_l[n,m] sin m lam) P_nm(cos theta)
//
// with q = a/r and P_nm the FULL or SCHMIDT normalised associated Legendre function as *defined* in
// SphericalHarmonic.hpp: P_nm = (-1)^m sqrt(k (2n+1) (n-m)!/(n+m)!) Ferrers P_n^m (k = 1 for m = 0, else 2;
// without the factor (2n+1) for SCHMIDT).  Evaluation (sh_ref.cpp, 50 digits):
//   * un-normalised Ferrers functions by the textbook three-term recurrence
//       (n-m) P_n^m = (2n-1) t P_{n-1}^m - (n+m-1) P_{n-2}^m,  P_m^m = (2m-1)!! u^m
//     (the 50-digit type has a 32-bit exponent, so no scaling is needed),
//   * normalisation from explicit factorial ratios,
//   * cos/sin(m lam) as powers of (x + i y)/p,
//   * gradient by analytic differentiation: each term is an irregular solid harmonic whose Cartesian
//     derivatives are solid harmonics of degree n+1 (Cunningham's relations, see sh_ref.cpp); regular on
//     the polar axis; validated against 50-digit central differences and the Laplace residual by
//     cd_check()/sh_selftest.cpp; per case the Euler identity x.grad V = -sum (n+1) term is evaluated
//     (ok == false -> the caller must SKIP).
// Nothing here shares a formula with SphericalEngine's Clenshaw summation, its square-root table, its
// scaling, or CircularEngine.
//
// Coefficient layout as documented for SphericalHarmonic: C index m*N - m(m-1)/2 + n; S the same minus
// (N + 1) (the m = 0 column is absent).
#pragma once
#include <vector>

namespace ref { namespace sh {

enum Norm { FULL = 0, SCHMIDT = 1 };

struct Comp {
  const std::vector<double>* C = nullptr;
  const std::vector<double>* S = nullptr;
  int N = -1;              // layout degree
  int nmx = -1, mmx = -1;  // limits of this component (terms beyond contribute 0)
  long double tau = 1;     // multiplier
};

struct Out {
  long double V = 0, Vlo = 0;          // value = V + Vlo (double-long-double)
  long double g[3] = {0, 0, 0};        // Cartesian gradient
  long double glo[3] = {0, 0, 0};
  // scales for round-off tolerances ("sum of |terms|"); near the axis (p < 1e-8 r) they are evaluated at
  // a point moved to p = 1e-8 r so that the m >= 1 terms keep their limiting size
  long double S1 = 0;                  // sum q^(n+1) |P_nm| sum_l |tau_l| (|C_l| + |S_l|)
  long double Sg = 0;                  // same for the gradient: sum of the |pieces| of the derivative relations
  long double lap = 0;                 // Euler-identity residual |x.g + sum (n+1) term| / (r Sg)
  bool ok = true;                      // oracle self-check (residual < 1e-40)
};

// nmx, mmx: overall limits of the sum (those of the first component in the library's classes)
Out eval(Norm norm, const std::vector<Comp>& comps, int nmx, int mmx, double a,
         double x, double y, double z, bool grad);

// central-difference validation of one case (50 digits, steps r 2^-70 / r 2^-40): max component error of the
// analytic gradient relative to Sg, and the Laplace residual r^2 |lap V| / ((nmx+1)^2 S1).  Meaningful away
// from the axis (near it the high-order terms vary on the scale p/m, not r/n).
void cd_check(Norm norm, const std::vector<Comp>& comps, int nmx, int mmx, double a,
              double x, double y, double z, long double& graderr, long double& lapres);

// ---- self-validation helpers (used by ref/sh_selftest.cpp and reported in the evidence notes)
// max | (1/4pi) Int Y_nm Y_n'm' dOmega - delta * (1 or 1/(2n+1)) | over n,n' <= N (Gauss-Legendre in theta,
// exact trapezoid in lambda), relative to the expected diagonal value
// (every mstride-th order m is tested)
long double orthonormality_defect(Norm norm, int N, int mstride = 1);

}}  // namespace ref::sh
