// Tolerance policy (DESIGN section 2): documented accuracies turned into formulas.
#pragma once
#include <cmath>
#include <algorithm>

namespace tol {

typedef long double L;
static const L A_WGS84 = 6378137.0L;
static const L F_WGS84 = 1 / 298.257223563L;

inline L interp_loglog(const L* xs, const L* ys, int n, L x) {
  if (x <= xs[0]) return ys[0];
  if (x >= xs[n - 1]) return ys[n - 1];
  for (int i = 1; i < n; ++i)
    if (x <= xs[i]) {
      L t = (logl(x) - logl(xs[i - 1])) / (logl(xs[i]) - logl(xs[i - 1]));
      return expl(logl(ys[i - 1]) + t * (logl(ys[i]) - logl(ys[i - 1])));
    }
  return ys[n - 1];
}

// Geodesic.hpp: 15 nm on WGS84; table 25 nm, 30 nm, 10 um, 1.5 mm, 300 mm at |f| = .01 .02 .05 .1 .2
// (for a = WGS84 a).  Returned in metres for equatorial radius a.  Nothing is documented for |f| > 0.2.
inline L geod_series_doc(L a, L f) {
  static const L xs[] = {F_WGS84, 0.01L, 0.02L, 0.05L, 0.1L, 0.2L};
  static const L ys[] = {15e-9L, 25e-9L, 30e-9L, 10e-6L, 1.5e-3L, 300e-3L};
  return interp_loglog(xs, ys, 6, fabsl(f)) * a / A_WGS84;
}

// quarter meridian by quadrature in the parametric latitude (smooth integrand)
inline L quarter_meridian(L a, L f) {
  L b = a * (1 - f);
  const int N = 4096; L h = (3.14159265358979323846264338327950288L / 2) / N, s = 0;
  for (int i = 0; i <= N; ++i) {   // composite Simpson
    L be = i * h, v = sqrtl(a * a * sinl(be) * sinl(be) + b * b * cosl(be) * cosl(be));
    s += v * (i == 0 || i == N ? 1 : (i & 1) ? 4 : 2);
  }
  return s * h / 3;
}

// GeodesicExact.hpp: about 40 nm on WGS84; table by b/a for a quarter meridian of 10 000 km
inline L geod_exact_nm(L f) {
  static const L xs[] = {1 / 128.L, 1 / 64.L, 1 / 32.L, 1 / 16.L, 1 / 8.L, 1 / 4.L, 1 / 2.L, 1, 2, 4, 8, 16, 32, 64, 128};
  static const L ys[] = {387, 345, 269, 210, 115, 69, 36, 15, 25, 96, 318, 985, 2352, 6008, 19024};
  L nm = interp_loglog(xs, ys, 15, 1 - f);
  return std::max(nm, 40.0L);     // text: "the error is about 40 nm instead of 15 nm"
}
inline L geod_exact_doc(L a, L f) { return geod_exact_nm(f) * 1e-9L * quarter_meridian(a, f) / 1e7L; }
// relative degradation of the exact solver's accuracy with eccentricity (1 for b/a in [1/2, 2])
inline L geod_exact_degr(L f) { return geod_exact_nm(f) / 40.0L; }

}  // namespace tol
