// R-MP rhumb-line reference (DESIGN C09 "O"): everything from the defining expressions in 50 digits.
//   psi (isometric latitude): closed form asinh(tan phi) - e atanh(e sin phi);
//   m (meridian distance): quadrature (ref/aux_impl.hpp);
//   tan(azi12) = lam12 / psi12;  s12 = |m2 - m1| / |cos azi12|  (= a cos(beta) |lam12| for lat1 == lat2);
//   S12 = (lam12 / psi12) Int_{phi1}^{phi2} A(phi) (dpsi/dphi) dphi  (= A(phi) lam12 for lat1 == lat2),
//     A(phi) = area between the equator and the parallel phi per radian of longitude (Snyder 3-12 closed form,
//     cross-checked against the zone-area quadrature in aux selfcheck); the integral is taken over
//     v = -ln cos(phi), where the integrand is smooth up to the pole, by adaptive Gauss-Kronrod;
//   direct problem: m2 = m1 + s12 cos(azi12), phi2 by Newton on the meridian-distance integral.
// No divided differences, no series, no Fourier fit: 50 digits make the plain differences exact to >= 30 digits.
#pragma once
#include "ref/aux_ref.hpp"

namespace ref {
namespace rhumb {

typedef long double L;

struct Inv {
  bool pole1, pole2;        // an end point is a pole: only the relaxed quantities below are meaningful
  bool eastwest;            // lat1 == lat2
  bool tie;                 // lon2 - lon1 == 180 (mod 360) exactly; results are for the east-going course
  L lon12;                  // reduced longitude difference in degrees, (-180, 180]
  L s12, azi12, S12;
  // for tolerances
  L psi1, psi2, psi12, lam12, m12;      // isometric latitudes (radians), longitude difference (radians), m2 - m1
  L c2;                                 // authalic radius squared
  L hyp;                                // hypot(lam12, psi12)
};
// false: refused (reference did not converge) or invalid input
bool inverse(const aux::Ell& E, double lat1, double lon1, double lat2, double lon2, Inv& out);

struct Dir {
  bool pole1;               // start at a pole
  bool crosses;             // |mu1 + mu12| > 90: the course reaches or passes a pole
  L pole_margin;            // |mu2| - 90 in degrees (unreduced mu2 = mu1 + mu12); near 0 the two branches are both acceptable
  L lat2;                   // in the crossing case: the latitude reached by continuing along the meridian
  L lon12;                  // unreduced longitude change, degrees (NaN when crosses)
  L S12;                    // (NaN when crosses)
  // for tolerances
  L mu1, mu12;              // rectifying latitude of point 1 and its change, degrees
  L dphi_dmu2;              // d phi / d mu at point 2
  L cond_lon;               // |tan(azi) (G2 - Gmean)|, G = d psi / d mu: sensitivity of lon12 [deg] to an error of mu2 [deg]
  L cond_S;                 // sensitivity of S12 [m^2] to an error of mu2 [deg] (excluding the part through lon12)
  L meansinxi;              // S12 / (c2 lam12)
  L c2;
  L psi1, psi2;
};
bool direct(const aux::Ell& E, double lat1, double azi12, double s12, Dir& out);

// exact test for lon2 - lon1 == 180 (mod 360); sign = sign of the unreduced difference lon2 - lon1
bool is_tie(double lon1, double lon2, int& sign);

}  // namespace rhumb
}  // namespace ref
