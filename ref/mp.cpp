// R-MP implementation (see mp.hpp).  Formulas: J. P. Snyder, Map Projections - A Working Manual,
// USGS PP 1395 (1987); equation numbers quoted.  Evaluated in 50 digits per point, 100 digits for
// projection constants, so that the naive textbook forms stay accurate to > 30 digits where the
// code under test needs divided differences.
#include "ref/mp.hpp"

#include <boost/math/constants/constants.hpp>
#include <boost/multiprecision/cpp_bin_float.hpp>

#include <cstdio>
#include <limits>
#include <vector>

namespace mpr {

namespace bm = boost::multiprecision;
typedef bm::number<bm::cpp_bin_float<50>, bm::et_off> M50;
typedef bm::number<bm::cpp_bin_float<100>, bm::et_off> M100;

namespace {

template <class T> T pi_() { return boost::math::constants::pi<T>(); }
template <class T> T deg_() { return pi_<T>() / 180; }
template <class T> L toL(const T& x) { return x.template convert_to<L>(); }
template <class T> T sq(const T& x) { return x * x; }
const L NaNL = std::numeric_limits<L>::quiet_NaN();

// sine and cosine of an angle in degrees; the reduction to [-45,45] is exact (remquo on the double)
template <class T> void sincosd_t(double x, T& s, T& c) {
  if (!std::isfinite(x)) { s = c = std::numeric_limits<double>::quiet_NaN(); return; }
  int q = 0;
  double r = std::remquo(x, 90.0, &q);
  T rr = T(r) * deg_<T>();
  T s0 = r == 0 ? T(0) : T(sin(rr)), c0 = r == 0 ? T(1) : T(cos(rr));
  switch ((unsigned)q & 3u) {
    case 0u: s = s0; c = c0; break;
    case 1u: s = c0; c = -s0; break;
    case 2u: s = -s0; c = -c0; break;
    default: s = -c0; c = s0; break;
  }
}

template <class T> T sinc(const T& x) {
  if (fabs(x) < T(1e-12)) { T x2 = x * x; return 1 - x2 / 6 + x2 * x2 / 120; }
  return sin(x) / x;
}
// (exp(x) - 1) / x
template <class T> T expm1_over(const T& x) {
  if (fabs(x) < T(0.5)) {
    T term = 1, sum = 1;
    for (int k = 2; k < 200; ++k) {
      term *= x / k; sum += term;
      if (fabs(term) < T(1e-110)) break;
    }
    return sum;
  }
  return (exp(x) - 1) / x;
}

// ellipsoid constants and the eccentricity functions, valid for oblate, sphere and prolate
template <class T> struct E {
  T f, e2, e;   // e = sqrt(|e2|)
  explicit E(double ff) : f(ff) { e2 = f * (2 - f); e = sqrt(fabs(e2)); }
  // e * atanh(e x)   (prolate: analytic continuation, -|e| atan(|e| x))
  T eatanhe(const T& x) const {
    if (e2 > 0) return (e / 2) * log((1 + e * x) / (1 - e * x));
    if (e2 < 0) return -e * atan(e * x);
    return T(0);
  }
  // atanh(e x) / e
  T atanhee(const T& x) const {
    if (e2 > 0) return log((1 + e * x) / (1 - e * x)) / (2 * e);
    if (e2 < 0) return atan(e * x) / e;
    return x;
  }
  // Snyder 3-12: q = (1-e2) ( sin/(1 - e2 sin^2) - (1/2e) ln((1 - e sin)/(1 + e sin)) )
  T q(const T& s) const { return (1 - e2) * (s / (1 - e2 * s * s) + atanhee(s)); }
  T dq(const T& s) const { return 2 * (1 - e2) / sq(T(1 - e2 * s * s)); }   // dq / d(sin phi)
  // Snyder 14-15 squared
  T m2(const T& s, const T& c) const { return c * c / (1 - e2 * s * s); }
  T lnm(const T& s, const T& c) const { return log(c) - log(T(1 - e2 * s * s)) / 2; }
  // Snyder 15-9: t = tan(pi/4 - phi/2) / ((1 - e sin)/(1 + e sin))^(e/2); ln t  (c > 0)
  T lnt(const T& s, const T& c) const {
    T tanhalf = s >= 0 ? T(log(c) - log(T(1 + s))) : T(log(T(1 - s)) - log(c));
    return tanhalf + eatanhe(s);
  }
};

template <class T> V3 geoc_fwd_t(double a, double f, double lat, double lon, double h, T* out = nullptr) {
  E<T> el(f);
  T s, c, sl, cl;
  sincosd_t<T>(lat, s, c); sincosd_t<T>(lon, sl, cl);
  T n = T(a) / sqrt(T(1 - el.e2 * s * s));
  T X = (n + T(h)) * c * cl, Y = (n + T(h)) * c * sl, Z = ((1 - el.e2) * n + T(h)) * s;
  if (out) { out[0] = X; out[1] = Y; out[2] = Z; }
  V3 v = {toL(X), toL(Y), toL(Z)};
  return v;
}

template <class T> void enu_t(double lat, double lon, T M[9]) {
  T s, c, sl, cl;
  sincosd_t<T>(lat, s, c); sincosd_t<T>(lon, sl, cl);
  // columns: east, north, up
  M[0] = -sl;     M[1] = -cl * s;  M[2] = cl * c;
  M[3] = cl;      M[4] = -sl * s;  M[5] = sl * c;
  M[6] = 0;       M[7] = c;        M[8] = s;
}

}  // namespace

// ------------------------------------------------------------------------------------------------
void sincosd(double deg, L& s, L& c) { M50 ss, cc; sincosd_t<M50>(deg, ss, cc); s = toL(ss); c = toL(cc); }

L lamdiff(double lon0, double lon, bool* at180) {
  if (at180) *at180 = false;
  if (!std::isfinite(lon0) || !std::isfinite(lon)) return NaNL;
  // the two remainders are exact, their difference is exact in 50 digits
  M50 d = M50(std::remainder(lon, 360.0)) - M50(std::remainder(lon0, 360.0));
  if (d > 180) d -= 360;
  if (d < -180) d += 360;
  if (at180 && (d == 180 || d == -180)) *at180 = true;
  return toL(d);
}

Aux aux(double f, double lat) {
  typedef M50 T;
  Aux A; E<T> el(f);
  T s, c; sincosd_t<T>(lat, s, c);
  A.sphi = toL(s); A.cphi = toL(c);
  T w2 = 1 - el.e2 * s * s;
  A.q = toL(el.q(s)); T qp = el.q(T(1)); A.qp = toL(qp);
  A.m = toL(T(c / sqrt(w2)));
  A.N = toL(T(1 / sqrt(w2))); A.M = toL(T((1 - el.e2) / (w2 * sqrt(w2))));
  T r2d = 1 / deg_<T>();
  A.beta = toL(T(atan2(T((1 - el.f) * s), c) * r2d));
  A.theta = toL(T(atan2(T((1 - el.e2) * s), c) * r2d));
  T sx = el.q(s) / qp;
  A.xi = toL(T(atan2(sx, sqrt(T((1 - sx) * (1 + sx)))) * r2d));
  if (c == 0) {
    A.psi = s > 0 ? std::numeric_limits<L>::infinity() : -std::numeric_limits<L>::infinity();
    A.chi = s > 0 ? 90 : -90;
    A.t = s > 0 ? 0 : std::numeric_limits<L>::infinity();
  } else {
    T lnt = el.lnt(s, c);
    A.psi = toL(T(-lnt));
    A.t = toL(T(exp(lnt)));
    // tan chi = sinh psi
    A.chi = toL(T(atan(sinh(T(-lnt))) * r2d));
  }
  return A;
}

L rect_area(double a, double f, double lat1, double lat2, L dlon_deg) {
  typedef M50 T; E<T> el(f);
  T s1, c1, s2, c2; sincosd_t<T>(lat1, s1, c1); sincosd_t<T>(lat2, s2, c2);
  // area of a zone of the ellipsoid: a^2 dlam (q2 - q1) / 2   (Snyder 3-12 with 3-13)
  return toL(T(T(a) * T(a) * T(dlon_deg) * deg_<T>() * (el.q(s2) - el.q(s1)) / 2));
}

V3 geoc_forward(double a, double f, double lat, double lon, double h) { return geoc_fwd_t<M50>(a, f, lat, lon, h); }

L geoc_reproj(double a, double f, double lat, double lon, double h, double X, double Y, double Z, L* rnorm) {
  M50 P[3]; geoc_fwd_t<M50>(a, f, lat, lon, h, P);
  M50 dx = P[0] - M50(X), dy = P[1] - M50(Y), dz = P[2] - M50(Z);
  if (rnorm) *rnorm = toL(M50(sqrt(M50(M50(X) * M50(X) + M50(Y) * M50(Y) + M50(Z) * M50(Z)))));
  return toL(M50(sqrt(M50(dx * dx + dy * dy + dz * dz))));
}

void enu(double lat, double lon, L M[9]) {
  M50 m[9]; enu_t<M50>(lat, lon, m);
  for (int i = 0; i < 9; ++i) M[i] = toL(m[i]);
}

V3 local_forward(double a, double f, double lat0, double lon0, double h0, double lat, double lon, double h) {
  M50 G[3], G0[3], R[9];
  geoc_fwd_t<M50>(a, f, lat, lon, h, G); geoc_fwd_t<M50>(a, f, lat0, lon0, h0, G0);
  enu_t<M50>(lat0, lon0, R);
  M50 d[3] = {G[0] - G0[0], G[1] - G0[1], G[2] - G0[2]};
  V3 v;
  v.x = toL(M50(R[0] * d[0] + R[3] * d[1] + R[6] * d[2]));
  v.y = toL(M50(R[1] * d[0] + R[4] * d[1] + R[7] * d[2]));
  v.z = toL(M50(R[2] * d[0] + R[5] * d[1] + R[8] * d[2]));
  return v;
}

void local_matrix(double lat0, double lon0, double lat, double lon, L M[9]) {
  M50 R[9], Q[9]; enu_t<M50>(lat0, lon0, R); enu_t<M50>(lat, lon, Q);
  for (int i = 0; i < 3; ++i)
    for (int j = 0; j < 3; ++j)
      M[3 * i + j] = toL(M50(R[i] * Q[j] + R[i + 3] * Q[j + 3] + R[i + 6] * Q[j + 6]));
}

// distance to the ellipsoid.  Meridian plane, first quadrant (R >= 0, |Z|): the nearest point has
// parametric latitude beta in [0, pi/2].  Stationary points of the squared distance to
// (a cos beta, b sin beta) are the zeros of
//   g(beta) = R/a sin(beta) - (b/a) |Z|/a cos(beta) - (1 - b^2/a^2) sin(beta) cos(beta).
// Every zero found and both end points are candidates (each is a point ON the ellipse, so the
// result can only over-estimate the true minimum if a zero is missed).
L dist_to_ellipsoid(double a, double f, double X, double Y, double Z, bool* inside) {
  static const int N = 4096;
  static std::vector<L> sb, cb;
  const L PI2 = 1.5707963267948966192313216916397514L;
  if (sb.empty()) {
    sb.resize(N + 1); cb.resize(N + 1);
    for (int i = 0; i <= N; ++i) { sb[i] = sinl(PI2 * i / N); cb[i] = cosl(PI2 * i / N); }
    sb[0] = 0; cb[0] = 1; sb[N] = 1; cb[N] = 0;
  }
  M50 Rm = sqrt(M50(M50(X) * M50(X) + M50(Y) * M50(Y))), Zm = fabs(M50(Z)), am = a, bm_ = M50(a) * (1 - M50(f));
  L Rs = toL(M50(Rm / am)), Zs = toL(M50(Zm / am)), bp = 1 - (L)f, e2 = (1 - bp) * (1 + bp);
  if (inside) *inside = Rs * Rs + (Zs / bp) * (Zs / bp) < 1;
  auto g = [&](L s, L c) { return Rs * s - bp * Zs * c - e2 * s * c; };
  std::vector<L> cand; cand.push_back(0); cand.push_back(PI2);
  L gp = g(sb[0], cb[0]);
  for (int i = 1; i <= N; ++i) {
    L gi = g(sb[i], cb[i]);
    if (gi == 0) cand.push_back(PI2 * i / N);
    else if ((gp < 0 && gi > 0) || (gp > 0 && gi < 0)) {
      L lo = PI2 * (i - 1) / N, hi = PI2 * i / N, glo = gp;
      for (int it = 0; it < 90; ++it) {
        L mid = (lo + hi) / 2; if (mid == lo || mid == hi) break;
        L gm = g(sinl(mid), cosl(mid));
        if ((gm < 0) == (glo < 0) && gm != 0) { lo = mid; glo = gm; } else hi = mid;
      }
      cand.push_back((lo + hi) / 2);
    }
    gp = gi;
  }
  M50 best = -1;
  for (L be : cand) {
    M50 B = be; M50 dx = Rm - am * cos(B), dz = Zm - bm_ * sin(B);
    if (be == 0) { dx = Rm - am; dz = Zm; }
    if (be == PI2) { dx = Rm; dz = Zm - bm_; }
    M50 d = sqrt(M50(dx * dx + dz * dz));
    if (best < 0 || d < best) best = d;
  }
  return toL(best);
}

// ------------------------------------------------------------------------------------------------
PO ps_forward(double a, double f, double k0, bool northp, double lat, L lam) {
  typedef M50 T; E<T> el(f); PO o; o.inf = 0;
  T s, c; sincosd_t<T>(northp ? lat : -lat, s, c);
  T lamr = T(lam) * deg_<T>();
  o.gamma = northp ? lam : -lam;
  o.arc = 0; o.rho = std::numeric_limits<L>::infinity();
  if (c == 0 && s < 0) { o.inf = 1; o.x = o.y = o.k = NaNL; return o; }
  // Snyder 21-33: rho = 2 a k0 t / sqrt((1+e)^(1+e) (1-e)^(1-e));  the root equals sqrt(1-e2) exp(e atanh e)
  T rho = 0;
  if (c != 0) rho = 2 * T(a) * T(k0) * exp(el.lnt(s, c)) / (sqrt(T(1 - el.e2)) * exp(el.eatanhe(T(1))));
  o.x = toL(T(rho * sin(lamr)));
  o.y = toL(T((northp ? -1 : 1) * rho * cos(lamr)));
  o.arc = toL(T(rho * fabs(lamr))); o.rho = toL(rho);
  // 21-32: k = rho / (a m); 21-35 at the pole: k0
  o.k = c != 0 ? toL(T(rho / (T(a) * sqrt(el.m2(s, c))))) : (L)k0;
  return o;
}

L ps_k0_for_scale(double a, double f, double lat, double k) {
  PO o = ps_forward(a, f, 1.0, true, lat, 0);
  return (L)k / o.k;
}

PO mercator_forward(double a, double f, double k0, double lat, L lam) {
  typedef M50 T; E<T> el(f); PO o; o.inf = 0; o.gamma = 0;
  T s, c; sincosd_t<T>(lat, s, c);
  o.x = toL(T(T(a) * T(k0) * T(lam) * deg_<T>())); o.arc = fabsl(o.x); o.rho = std::numeric_limits<L>::infinity();
  if (c == 0) { o.inf = 1; o.y = o.k = NaNL; return o; }
  o.y = toL(T(-T(a) * T(k0) * el.lnt(s, c)));                 // Snyder 7-7
  o.k = toL(T(T(k0) / sqrt(el.m2(s, c))));                     // 7-8
  return o;
}

// ------------------------------------------------------------------------------------------------
struct Conic::Impl {
  int kind; double a, f;
  M100 is1, ic1, is2, ic2;         // sines / cosines of the standard parallels as given (not normalised)
  bool in_ok = true;
  M100 k1;
  bool valid = false, polar = false;
  int sgn = 1;                     // -1: the configuration was mirrored (tangent latitude in the south)
  // per point (50 digits)
  M50 n, one_m_n, lnK, lnt0, R0, C, q0, qp, s0, c0;
  L lat0 = NaNL, k0 = NaNL, nc2 = NaNL;

  void setup() {
    typedef M100 T;
    valid = false;
    if (!(std::isfinite(a) && a > 0 && std::isfinite(f) && f < 1) || !(k1 > 0)) return;
    if (!in_ok) return;
    if (ic1 < 0 || ic2 < 0 || (is1 == 0 && ic1 == 0) || (is2 == 0 && ic2 == 0)) return;
    E<T> el(f);
    T s1 = is1, c1 = ic1, s2 = is2, c2 = ic2;
    { T r = sqrt(T(s1 * s1 + c1 * c1)); s1 /= r; c1 /= r; r = sqrt(T(s2 * s2 + c2 * c2)); s2 /= r; c2 /= r; }
    sgn = (s1 + s2 >= 0) ? 1 : -1;
    if (sgn < 0) { s1 = -s1; s2 = -s2; }
    if (s1 > s2) { std::swap(s1, s2); std::swap(c1, c2); }     // phi1 <= phi2
    bool equal = (s1 == s2 && c1 == c2);
    polar = (c1 == 0 && c2 == 0 && equal);
    T r2d = 1 / deg_<T>();
    if (kind == LCC) {
      if ((c1 == 0 || c2 == 0) && !equal) return;               // singular, disallowed
      T nn, omn, lnk;
      if (polar) {
        nn = 1; omn = 0;
        // m1 / t1 in the limit phi1 -> 90: (1/sqrt(1-e2)) * 2 / exp(e atanh e)
        lnk = log(k1) - log(T(1 - el.e2)) / 2 + log(T(2)) - el.eatanhe(T(1));
      } else {
        if (equal) { nn = s1; omn = s1 >= 0 ? T(c1 * c1 / (1 + s1)) : T(1 - s1); }
        else {
          // Snyder 15-8: n = (ln m1 - ln m2) / (ln t1 - ln t2)
          T num = el.lnm(s1, c1) - el.lnm(s2, c2), den = el.lnt(s1, c1) - el.lnt(s2, c2);
          if (den == 0) return;
          nn = num / den; omn = (den - num) / den;
        }
        // 15-10: F = m1 / (n t1^n);  here lnK = ln(k1 n F) = ln k1 + ln m1 - n ln t1
        lnk = log(k1) + el.lnm(s1, c1) - nn * el.lnt(s1, c1);
      }
      // rounding of the quotient in the limits (both parallels within 1e-100 of a pole, or exactly symmetric)
      if (nn > 1 && nn < 1 + T(1e-80)) { nn = 1; omn = 0; }
      if (omn < 0 && omn > -T(1e-80)) omn = 0;
      if (nn < 0 && nn > -T(1e-80)) { nn = 0; omn = 1; }
      if (!(nn >= 0 && nn <= 1)) return;
      T cc0 = sqrt(T(omn * (1 + nn))), ss0 = nn;
      n = M50(nn); one_m_n = M50(omn); lnK = M50(lnk); s0 = M50(ss0); c0 = M50(cc0);
      nc2 = toL(T(omn * (1 + nn)));
      lat0 = sgn * toL(T(atan2(ss0, cc0) * r2d));
      // scale on the origin parallel: k = k1 m1 t0^n / (m0 t1^n)  (15-5 / 15-4 evaluated at phi0)
      T lnk0;
      if (cc0 == 0) {
        // limit c0 -> 0 (n -> 1): m0 = c0 mu0, t0 = c0 tau0
        lnk0 = lnk + nn * (-log(T(2)) + el.eatanhe(T(1))) + log(T(1 - el.e2)) / 2;
        lnt0 = 0; R0 = 0;
      } else {
        T l0 = el.lnt(ss0, cc0);
        lnk0 = lnk + nn * l0 - el.lnm(ss0, cc0);
        lnt0 = M50(l0); R0 = M50(T(T(a) * exp(T(lnk + nn * l0))));
      }
      k0 = toL(T(exp(lnk0)));
      valid = true;
    } else {
      if (c1 == 0 && c2 == 0 && !equal) return;                  // opposite poles
      T ns, Cs, q1 = el.q(s1), q2 = el.q(s2), m12 = el.m2(s1, c1), m22 = el.m2(s2, c2);
      if (equal) { ns = s1; Cs = m12 + s1 * q1; }
      else {
        T dqq = q2 - q1;
        if (s1 > 0 && s2 > 0) {
          // sin phi2 - sin phi1 from the cosines (exact identity; matters when both sines round to 1)
          T ds = (c1 * c1 - c2 * c2) / (s1 + s2);
          if (fabs(ds) < T(1e-40)) dqq = el.dq(T((s1 + s2) / 2)) * ds;
        }
        if (dqq == 0) return;
        ns = (m12 - m22) / dqq;           // Snyder 14-14
        Cs = m12 + ns * q1;               // 14-13
      }
      // scale k1 on the standard parallels: azimuthal scale sqrt(C - n q)/m = k1 there
      T nn = k1 * k1 * ns, CC = k1 * k1 * Cs;
      if (!(nn >= 0) || !(CC > 0)) return;
      // origin: parallel of minimum azimuthal scale, d/dphi [(C - n q)/m^2] = 0
      //   <=>  F(s) = (C - n q(s)) s - n (1 - s^2)/(1 - e2 s^2) = 0,  dF/ds = C - n q(s)
      T ss0;
      if (equal) ss0 = s1;
      else {
        T lo = s1, hi = s2, s = (s1 + s2) / 2;
        auto F = [&](const T& x) { return T((CC - nn * el.q(x)) * x - nn * (1 - x * x) / (1 - el.e2 * x * x)); };
        for (int it = 0; it < 400; ++it) {
          T Fv = F(s);
          if (Fv > 0) hi = s; else lo = s;
          T d = CC - nn * el.q(s);
          T sn = d > 0 ? T(s - Fv / d) : T((lo + hi) / 2);
          if (!(sn > lo && sn < hi)) sn = (lo + hi) / 2;
          T step = fabs(T(sn - s)); s = sn;
          if (step < T(1e-95) || hi - lo < T(1e-95)) break;
        }
        ss0 = s;
      }
      T cc0 = sqrt(T((1 - ss0) * (1 + ss0)));
      if (polar) cc0 = 0;
      T qq0 = el.q(ss0);
      n = M50(nn); C = M50(CC); q0 = M50(qq0); qp = M50(el.q(T(1))); s0 = M50(ss0); c0 = M50(cc0);
      one_m_n = 0;
      nc2 = toL(T((1 - ss0) * (1 + ss0)));
      lat0 = sgn * toL(T(atan2(ss0, cc0) * r2d));
      // at the minimum sin(phi0) = n m0^2/(C - n q0) = n / k0^2
      T kk = ss0 > T(0.5) ? T(nn / ss0) : T((CC - nn * qq0) / el.m2(ss0, cc0));
      k0 = toL(T(sqrt(kk)));
      R0 = M50(T(T(a) * sqrt(T(polar ? T(0) : T(CC - nn * qq0)))));
      valid = true;
    }
  }

  PO forward(double lat, L lam_deg) const {
    typedef M50 T; PO o; o.inf = 0; o.x = o.y = o.k = o.gamma = NaNL; o.arc = 0; o.rho = std::numeric_limits<L>::infinity();
    if (!valid || !(std::fabs(lat) <= 90)) return o;
    E<T> el(f);
    T s, c; sincosd_t<T>(sgn * lat, s, c);
    T lam = T(lam_deg) * deg_<T>(), th = n * lam;
    o.gamma = sgn * toL(T(n * T(lam_deg)));
    T A = a, Rn, yrad;   // Rn = n * rho;  yrad = rho0 - rho
    if (kind == LCC) {
      if (c == 0) {
        if (s < 0 || n == 0) { o.inf = 1; return o; }
        Rn = 0; yrad = R0 / n;                       // apex of the cone
        o.k = polar ? k0 : NaNL;
      } else {
        T l = el.lnt(s, c);
        Rn = A * exp(T(lnK + n * l));                // 15-7: rho = a F t^n
        if (R0 == 0) yrad = -Rn / n;
        else if (n > T(0.1)) yrad = (R0 - Rn) / n;
        else { T d = l - lnt0; yrad = -R0 * d * expm1_over(T(n * d)); }   // (t0^n - t^n)/n, also n -> 0
        o.k = toL(T(Rn / (A * sqrt(el.m2(s, c)))));  // 15-4: k = rho n / (a m)
      }
    } else {
      T q = el.q(s);
      T w = C - n * q;                               // 14-12: rho = a sqrt(C - n q)/n
      if (w < 0) w = 0;
      Rn = (polar && c == 0 && s > 0) ? T(0) : T(A * sqrt(w));
      // rho0 - rho = (R0 - Rn)/n; for a nearly cylindrical cone (n q << C) the conjugate form
      // a (q - q0)/(sqrt(C - n q0) + sqrt(C - n q)), which has the limit n -> 0, is used instead
      if (n * qp < T(1e-10) * C) { T den = (R0 + Rn) / A; yrad = den == 0 ? T(0) : T(A * (q - q0) / den); }
      else yrad = (R0 - Rn) / n;
      if (c != 0) o.k = toL(T(Rn / (A * sqrt(el.m2(s, c)))));           // 14-18 (azimuthal scale)
      else o.k = (polar && s > 0) ? k0 : NaNL;
    }
    // 14-1, 14-2 / 15-1, 15-2: x = rho sin(theta), y = rho0 - rho cos(theta), theta = n lam
    T x = Rn * lam * sinc(th);
    T h = th / 2;
    T y = yrad + Rn * n * lam * lam / 2 * sq(sinc(h));
    o.x = toL(x); o.y = sgn * toL(y); o.arc = toL(T(Rn * fabs(lam)));
    if (n != 0) o.rho = toL(T(Rn / n));
    return o;
  }
};

Conic::Conic(Kind kind, double a, double f, double s1, double c1, double s2, double c2, double k1) : p_(new Impl) {
  p_->kind = kind; p_->a = a; p_->f = f;
  p_->in_ok = std::isfinite(s1) && std::isfinite(c1) && std::isfinite(s2) && std::isfinite(c2);
  if (p_->in_ok) { p_->is1 = s1; p_->ic1 = c1; p_->is2 = s2; p_->ic2 = c2; }
  p_->k1 = std::isfinite(k1) ? M100(k1) : M100(-1);
  p_->setup();
}
Conic Conic::deg(Kind kind, double a, double f, double lat1, double lat2, double k1) {
  // 100-digit sines and cosines of the stated degrees (exact argument reduction)
  Conic c(kind, a, f, 0, 1, 0, 1, k1);
  if (!(std::fabs(lat1) <= 90 && std::fabs(lat2) <= 90)) { c.p_->in_ok = false; c.p_->valid = false; return c; }
  sincosd_t<M100>(lat1, c.p_->is1, c.p_->ic1); sincosd_t<M100>(lat2, c.p_->is2, c.p_->ic2);
  c.p_->setup();
  return c;
}
Conic::Conic(const Conic& o) : p_(new Impl(*o.p_)) {}
Conic& Conic::operator=(const Conic& o) { if (this != &o) { *p_ = *o.p_; } return *this; }
Conic::~Conic() { delete p_; }
bool Conic::valid() const { return p_->valid; }
L Conic::n() const { return p_->sgn * toL(p_->n); }
L Conic::lat0() const { return p_->lat0; }
L Conic::k0() const { return p_->k0; }
L Conic::nc2() const { return p_->nc2; }
PO Conic::forward(double lat, L lam_deg) const { return p_->forward(lat, lam_deg); }
void Conic::set_scale(double lat, double k) {
  if (!p_->valid) return;
  PO o = p_->forward(lat, 0);
  if (!(o.k > 0) || !std::isfinite((double)o.k) || !(k > 0) || !std::isfinite(k)) { p_->valid = false; return; }
  p_->k1 *= M100(k) / M100(o.k);
  p_->setup();
}

// ------------------------------------------------------------------------------------------------
// development-time self test: the limit-safe arrangements above against the naive textbook
// formulas (generic configurations, northern and southern), and a few identities
int selftest(bool verbose) {
  typedef M100 T; int bad = 0;
  auto rep = [&](const char* what, L err, L tol) {
    if (!(err <= tol)) ++bad;
    if (verbose || !(err <= tol)) std::printf("%-58s err %.3Le (tol %.1Le)%s\n", what, err, tol, err <= tol ? "" : "  <-- BAD");
  };
  struct Cfg { double a, f, l1, l2, k1, lat, lam; };
  Cfg cfgs[] = {{6378137, 1 / 298.257223563, 40, 60, 1, 35, 20},      {6378137, 1 / 298.257223563, -40, -60, 1, -70, 10},
                {6378137, 0.1, 10, 50, 0.9, -30, -100},               {6378137, -0.1, -20, -25, 1.7, 40, 170},
                {1000, 0, 33, 45, 1, 80, 5},                          {6378137, 0.3, -5, 45, 2, 20, -60}};
  for (const Cfg& g : cfgs) {
    E<T> el(g.f); T d2r = deg_<T>();
    T p1 = T(g.l1) * d2r, p2 = T(g.l2) * d2r, p = T(g.lat) * d2r, lam = T(g.lam) * d2r, e = el.e;
    auto m = [&](T ph) { return T(cos(ph) / sqrt(T(1 - el.e2 * sq(T(sin(ph)))))); };
    auto q = [&](T ph) { return el.q(T(sin(ph))); };
    auto t = [&](T ph) {
      T s = sin(ph);
      T con = g.f > 0 ? T(pow(T((1 - e * s) / (1 + e * s)), T(e / 2))) : g.f < 0 ? T(exp(T(e * atan(T(e * s))))) : T(1);
      return T(tan(T(pi_<T>() / 4 - ph / 2)) / con);
    };
    // Lambert conformal conic, Snyder 15-1 .. 15-8 exactly as printed (k1 multiplies rho)
    {
      T n = (log(m(p1)) - log(m(p2))) / (log(t(p1)) - log(t(p2)));
      T F = m(p1) / (n * pow(t(p1), n));
      T p0 = asin(n);
      T rho = T(g.a) * T(g.k1) * F * pow(t(p), n), rho0 = T(g.a) * T(g.k1) * F * pow(t(p0), n);
      T x = rho * sin(T(n * lam)), y = rho0 - rho * cos(T(n * lam)), k = rho * n / (T(g.a) * m(p));
      Conic c = Conic::deg(Conic::LCC, g.a, g.f, g.l1, g.l2, g.k1);
      PO o = c.forward(g.lat, g.lam);
      rep("LCC x vs naive Snyder [m]", fabsl(o.x - toL(x)), 1e-12L * g.a);
      rep("LCC y vs naive Snyder [m]", fabsl(o.y - toL(y)), 1e-12L * g.a);
      rep("LCC k vs naive Snyder", fabsl(o.k - toL(k)), 1e-17L * toL(k));
      rep("LCC gamma", fabsl(o.gamma - toL(T(n * T(g.lam)))), 1e-17L);
      rep("LCC lat0 [deg]", fabsl(c.lat0() - toL(T(p0 / d2r))), 1e-17L);
      rep("LCC k0", fabsl(c.k0() - toL(T(rho0 * n / (T(g.a) * m(p0))))), 1e-17L * c.k0());
    }
    // Albers, Snyder 14-12 .. 14-21 with C and n scaled by k1^2; origin = minimum of sqrt(C - n q)/m (scan)
    {
      T n = (sq(m(p1)) - sq(m(p2))) / (q(p2) - q(p1)), C = sq(m(p1)) + n * q(p1);
      n *= T(g.k1) * T(g.k1); C *= T(g.k1) * T(g.k1);
      auto kk = [&](T ph) { return T(sqrt(T(C - n * q(ph))) / m(ph)); };
      // golden-section minimisation of k between the parallels
      T lo = std::min(p1, p2), hi = std::max(p1, p2), gr = (sqrt(T(5)) - 1) / 2;
      for (int it = 0; it < 500; ++it) {
        T x1 = hi - gr * (hi - lo), x2 = lo + gr * (hi - lo);
        if (kk(x1) < kk(x2)) hi = x2; else lo = x1;
      }
      T p0 = (lo + hi) / 2;
      T rho = T(g.a) * sqrt(T(C - n * q(p))) / n, rho0 = T(g.a) * sqrt(T(C - n * q(p0))) / n;
      T x = rho * sin(T(n * lam)), y = rho0 - rho * cos(T(n * lam));
      Conic c = Conic::deg(Conic::ALBERS, g.a, g.f, g.l1, g.l2, g.k1);
      PO o = c.forward(g.lat, g.lam);
      rep("Albers x vs naive Snyder [m]", fabsl(o.x - toL(x)), 1e-12L * g.a);
      rep("Albers y vs naive Snyder (origin by minimisation) [m]", fabsl(o.y - toL(y)), 1e-12L * g.a);
      rep("Albers k vs naive", fabsl(o.k - toL(kk(p))), 1e-17L * toL(kk(p)));
      rep("Albers lat0 vs golden-section minimum [deg]", fabsl(c.lat0() - toL(T(p0 / d2r))), 1e-17L);   // minimiser accurate to sqrt(1e-100)
      rep("Albers k0 vs minimum", fabsl(c.k0() - toL(kk(p0))), 1e-17L * c.k0());
      rep("Albers k on parallel 1 = k1", fabsl(c.forward(g.l1, 0).k - g.k1), 1e-17L * g.k1);
      rep("Albers k on parallel 2 = k1", fabsl(c.forward(g.l2, 0).k - g.k1), 1e-17L * g.k1);
    }
    { Conic c = Conic::deg(Conic::LCC, g.a, g.f, g.l1, g.l2, g.k1);
      rep("LCC k on parallel 1 = k1", fabsl(c.forward(g.l1, 0).k - g.k1), 1e-17L * g.k1);
      rep("LCC k on parallel 2 = k1", fabsl(c.forward(g.l2, 0).k - g.k1), 1e-17L * g.k1); }
  }
  // limits
  {
    double a = 6378137, f = 1 / 298.257223563;
    Conic c = Conic::deg(Conic::LCC, a, f, 0, 0, 0.9996); PO o = c.forward(37, 11), mo = mercator_forward(a, f, 0.9996, 37, 11);
    rep("LCC(0) = Mercator x", fabsl(o.x - mo.x), 1e-10L); rep("LCC(0) = Mercator y", fabsl(o.y - mo.y), 1e-10L); rep("LCC(0) = Mercator k", fabsl(o.k - mo.k), 1e-17L);
    Conic d = Conic::deg(Conic::LCC, a, f, 90, 90, 0.994); PO p = d.forward(70, 33), q = ps_forward(a, f, 0.994, true, 70, 33);
    rep("LCC(90) = polar stereographic x", fabsl(p.x - q.x), 1e-10L); rep("LCC(90) = PS y", fabsl(p.y - q.y), 1e-10L); rep("LCC(90) = PS k", fabsl(p.k - q.k), 1e-17L);
    Conic s = Conic::deg(Conic::LCC, a, f, -90, -90, 0.994); PO ps = s.forward(-70, 33), qs = ps_forward(a, f, 0.994, false, -70, 33);
    rep("LCC(-90) = PS south x", fabsl(ps.x - qs.x), 1e-10L); rep("LCC(-90) = PS south y", fabsl(ps.y - qs.y), 1e-10L);
    rep("LCC(-90) gamma", fabsl(ps.gamma - qs.gamma), 1e-17L);
    // continuity of the cone constant limits
    Conic e1 = Conic::deg(Conic::LCC, a, f, 1e-9, -1e-9 + 1e-13, 1); PO o1 = e1.forward(37, 11), m1 = mercator_forward(a, f, 1, 37, 11);
    rep("LCC(+-1e-9 deg) ~ Mercator y", fabsl(o1.y - m1.y), 1e-3L);
    Conic al = Conic::deg(Conic::ALBERS, a, f, 30, 30 + 1e-12, 1), al1 = Conic::deg(Conic::ALBERS, a, f, 30, 30, 1);
    rep("Albers(30,30+1e-12) ~ Albers(30) y", fabsl(al.forward(50, 20).y - al1.forward(50, 20).y), 1e-5L);
    rep("Albers(30,30+1e-12) lat0", fabsl(al.lat0() - 30 - 0.5e-12L), 1e-20L + 1e-13L);
    // rect area: whole ellipsoid = 2 pi a^2 qp ... compare with sphere
    rep("rect_area sphere", fabsl(rect_area(1, 0, -90, 90, 360) - 4 * 3.14159265358979323846264338327950288L), 1e-17L);
    Aux A = aux(f, 90); rep("xi(90) = 90", fabsl(A.xi - 90), 1e-17L); rep("chi(90) = 90", fabsl(A.chi - 90), 1e-17L);
    bool in; L d0 = dist_to_ellipsoid(a, f, a + 1000, 0, 0, &in); rep("distance on the equator", fabsl(d0 - 1000), 1e-12L);
    V3 G = geoc_forward(a, f, 47, 11, 12345.678); L dd = dist_to_ellipsoid(a, f, (double)G.x, (double)G.y, (double)G.z, &in);
    rep("distance of a point at height h", fabsl(dd - 12345.678L), 1e-8L);
    G = geoc_forward(a, f, -47, 11, -2345678.9); dd = dist_to_ellipsoid(a, f, (double)G.x, (double)G.y, (double)G.z, &in);
    rep("distance of a point at depth h", fabsl(dd - 2345678.9L), 1e-8L);
  }
  return bad;
}

}  // namespace mpr
