// R-SH implementation (see sh_ref.hpp).  50-digit binary floating point, expression templates off.
#include "sh_ref.hpp"

#include <boost/multiprecision/cpp_bin_float.hpp>
#include <cmath>
#include <vector>

namespace ref { namespace sh {

namespace mpn = boost::multiprecision;
typedef mpn::number<mpn::cpp_bin_float<50>, mpn::et_off> mp;

namespace {

// normalisation factors f_nm = sqrt(k (2n+1) (n-m)!/(n+m)!)   (no (2n+1) for SCHMIDT)
struct NormTab { int N = -1; std::vector<mp> f; };
NormTab g_tab[2];

inline size_t tri(int n, int m) { return (size_t)n * (n + 1) / 2 + m; }

void ensure(Norm norm, int N) {
  NormTab& T = g_tab[norm];
  if (T.N >= N) return;
  T.f.resize(tri(N, N) + 1);
  for (int n = T.N + 1; n <= N; ++n) {
    mp r = 1;   // (n-m)!/(n+m)!
    for (int m = 0; m <= n; ++m) {
      if (m > 0) r /= mp(n + m) * mp(n - m + 1);
      mp v = r * (m == 0 ? 1 : 2);
      if (norm == FULL) v *= (2 * n + 1);
      T.f[tri(n, m)] = sqrt(v);
    }
  }
  T.N = N;
}

struct PassOut { mp V = 0, g[3], S1 = 0, Sg = 0, eul = 0; PassOut() { g[0] = g[1] = g[2] = 0; } };

// One pass over the terms: value, gradient, scales.
// Gradient: every term is an irregular solid harmonic; with (geodesy convention, no Condon-Shortley phase)
//   V_nm = q^(n+1) Q_n^m(t) cos m lam,  W_nm = q^(n+1) Q_n^m(t) sin m lam
// the Cartesian derivatives are degree-(n+1) functions (Cunningham 1970; Montenbruck & Gill, Satellite
// Orbits, eq. 3.33), with cc = (n-m+1)(n-m+2):
//   a dV_nm/dx = (-V_{n+1,m+1} + cc V_{n+1,m-1})/2     a dW_nm/dx = (-W_{n+1,m+1} + cc W_{n+1,m-1})/2
//   a dV_nm/dy = (-W_{n+1,m+1} - cc W_{n+1,m-1})/2     a dW_nm/dy = ( V_{n+1,m+1} + cc V_{n+1,m-1})/2
//   a dV_n0/dx = -V_{n+1,1}                            a dV_n0/dy = -W_{n+1,1}
//   a dV_nm/dz = -(n-m+1) V_{n+1,m}                    a dW_nm/dz = -(n-m+1) W_{n+1,m}
// This is regular on the polar axis.  sh_selftest.cpp validates it against 50-digit central differences;
// per case the Euler identity x.grad V = -sum (n+1) term is checked (Out::ok).
PassOut pass(Norm norm, const std::vector<Comp>& comps, int nmx, int mmx, const mp& a,
             const mp& x, const mp& y, const mp& z, bool grad) {
  PassOut o;
  if (nmx < 0 || mmx < 0) return o;
  const NormTab& T = g_tab[norm];
  mp p = sqrt(x * x + y * y), r = sqrt(p * p + z * z);
  mp t = z / r, u = p / r, q = a / r;
  mp cl = p != 0 ? mp(x / p) : mp(1), sl = p != 0 ? mp(y / p) : mp(0);
  int M = mmx < nmx ? mmx : nmx;
  int NN = grad ? nmx + 1 : nmx, MM = grad ? M + 1 : M;
  std::vector<mp> qp((size_t)NN + 2);
  qp[0] = 1;
  for (int i = 1; i <= NN + 1; ++i) qp[(size_t)i] = qp[(size_t)i - 1] * q;
  std::vector<mp> cm((size_t)MM + 1), sm((size_t)MM + 1);
  cm[0] = 1; sm[0] = 0;
  for (int m = 1; m <= MM; ++m) { cm[(size_t)m] = cm[(size_t)m - 1] * cl - sm[(size_t)m - 1] * sl; sm[(size_t)m] = sm[(size_t)m - 1] * cl + cm[(size_t)m - 1] * sl; }
  // un-normalised Q_n^m, column m holds n = m..NN
  std::vector<std::vector<mp>> Q((size_t)MM + 1);
  {
    mp Qmm = 1;
    for (int m = 0; m <= MM; ++m) {
      if (m > 0) Qmm *= (2 * m - 1) * u;
      std::vector<mp>& col = Q[(size_t)m];
      col.resize((size_t)(NN - m + 1));
      mp Q2 = 0, Q1 = 0, Qn;
      for (int n = m; n <= NN; ++n) {
        if (n == m) Qn = Qmm; else Qn = ((2 * n - 1) * t * Q1 - (n + m - 1) * Q2) / (n - m);
        col[(size_t)(n - m)] = Qn; Q2 = Q1; Q1 = Qn;
      }
    }
  }
  auto Qat = [&](int n, int m) -> const mp& { return Q[(size_t)m][(size_t)(n - m)]; };
  for (int m = 0; m <= M; ++m) {
    for (int n = m; n <= nmx; ++n) {
      const mp& f = T.f[tri(n, m)];
      mp c = 0, s = 0, ca = 0;
      for (const Comp& k : comps) {
        if (n > k.nmx || m > k.mmx) continue;
        long long idx = (long long)m * k.N - (long long)m * (m - 1) / 2 + n;
        mp tau = k.tau, at = fabsl(k.tau);
        double cv = (*k.C)[(size_t)idx];
        c += tau * cv; ca += at * std::fabs(cv);
        if (m > 0) {
          double sv = (*k.S)[(size_t)(idx - (k.N + 1))];
          s += tau * sv; ca += at * std::fabs(sv);
        }
      }
      const mp& Qn = Qat(n, m);
      mp term = qp[(size_t)n + 1] * f * Qn * (c * cm[(size_t)m] + s * sm[(size_t)m]);
      o.V += term;
      o.S1 += qp[(size_t)n + 1] * f * abs(Qn) * ca;
      if (grad) {
        o.eul += (n + 1) * term;
        mp q2 = qp[(size_t)n + 2] * f / a;
        const mp& Qp = Qat(n + 1, m + 1);
        const mp& Q0 = Qat(n + 1, m);
        mp Vp = Qp * cm[(size_t)m + 1], Wp = Qp * sm[(size_t)m + 1];
        mp V0 = Q0 * cm[(size_t)m], W0 = Q0 * sm[(size_t)m];
        int cc = (n - m + 1) * (n - m + 2);
        if (m > 0) {
          const mp& Qm = Qat(n + 1, m - 1);
          mp Vm = Qm * cm[(size_t)m - 1], Wm = Qm * sm[(size_t)m - 1];
          o.g[0] += q2 / 2 * (-c * Vp - s * Wp + cc * (c * Vm + s * Wm));
          o.g[1] += q2 / 2 * (-c * Wp + s * Vp + cc * (-c * Wm + s * Vm));
          o.Sg += q2 * ca * (abs(Qp) + cc * abs(Qm) + (n - m + 1) * abs(Q0));
        } else {
          o.g[0] += q2 * (-c * Vp);
          o.g[1] += q2 * (-c * Wp);
          o.Sg += q2 * ca * (abs(Qp) + (n + 1) * abs(Q0));
        }
        o.g[2] += q2 * (n - m + 1) * (-c * V0 - s * W0);
      }
    }
  }
  return o;
}

inline void split(const mp& v, long double& hi, long double& lo) {
  hi = v.convert_to<long double>();
  mp d = v - mp(hi);
  lo = d.convert_to<long double>();
}

}  // namespace

Out eval(Norm norm, const std::vector<Comp>& comps, int nmx, int mmx, double a,
         double x, double y, double z, bool grad) {
  Out out;
  if (nmx >= 0) ensure(norm, nmx);
  mp A = a, X = x, Y = y, Z = z;
  mp p = sqrt(X * X + Y * Y), r = sqrt(p * p + Z * Z);
  bool nearaxis = p < r * mp(1e-8);
  // the scales always include the gradient scale (callers use it for conditioning terms)
  PassOut c0 = pass(norm, comps, nmx, mmx, A, X, Y, Z, true);
  mp S1 = c0.S1, Sg = c0.Sg;
  if (nearaxis) {
    mp cl = p != 0 ? mp(X / p) : mp(1), sl = p != 0 ? mp(Y / p) : mp(0);
    mp pp = r * mp(1e-8);
    mp zz = sqrt(r * r - pp * pp);
    if (Z < 0) zz = -zz;
    PassOut s = pass(norm, comps, nmx, mmx, A, pp * cl, pp * sl, zz, true);
    S1 = s.S1; Sg = s.Sg;
  }
  split(c0.V, out.V, out.Vlo);
  out.S1 = S1.convert_to<long double>();
  out.Sg = Sg.convert_to<long double>();
  (void)grad;
  for (int i = 0; i < 3; ++i) split(c0.g[i], out.g[i], out.glo[i]);
  if (c0.Sg > 0) {
    mp e = abs(X * c0.g[0] + Y * c0.g[1] + Z * c0.g[2] + c0.eul) / (r * c0.Sg);
    out.lap = e.convert_to<long double>();
    out.ok = out.lap < 1e-40L;
  }
  return out;
}

void cd_check(Norm norm, const std::vector<Comp>& comps, int nmx, int mmx, double a,
              double x, double y, double z, long double& graderr, long double& lapres) {
  if (nmx >= 0) ensure(norm, nmx);
  mp A = a, X = x, Y = y, Z = z;
  mp r = sqrt(X * X + Y * Y + Z * Z);
  PassOut c0 = pass(norm, comps, nmx, mmx, A, X, Y, Z, true);
  mp h1 = ldexp(r, -70), h2 = ldexp(r, -40), lap = 0, ge = 0;
  for (int i = 0; i < 3; ++i) {
    for (int w = 0; w < 2; ++w) {
      mp h = w ? h2 : h1;
      mp xp = X, yp = Y, zp = Z, xm = X, ym = Y, zm = Z;
      if (i == 0) { xp += h; xm -= h; } else if (i == 1) { yp += h; ym -= h; } else { zp += h; zm -= h; }
      mp Vp = pass(norm, comps, nmx, mmx, A, xp, yp, zp, false).V;
      mp Vm = pass(norm, comps, nmx, mmx, A, xm, ym, zm, false).V;
      if (w == 0) { mp d = abs((Vp - Vm) / (2 * h) - c0.g[i]); if (d > ge) ge = d; }
      else lap += (Vp + Vm - 2 * c0.V) / (h * h);
    }
  }
  graderr = c0.Sg > 0 ? mp(ge / c0.Sg).convert_to<long double>() : 0;
  lapres = c0.S1 > 0 ? mp(abs(lap) * r * r / (mp(nmx + 1) * mp(nmx + 1) * c0.S1)).convert_to<long double>() : 0;
}

// ------------------------------------------------------------------ self-validation
long double orthonormality_defect(Norm norm, int N, int mstride) {
  ensure(norm, N);
  const NormTab& T = g_tab[norm];
  int K = N + 2;   // Gauss-Legendre nodes: exact up to degree 2K-1 >= 2N
  std::vector<mp> xs((size_t)K), ws((size_t)K);
  const mp pi = boost::math::constants::pi<mp>();
  for (int k = 0; k < K; ++k) {
    mp x = cos(pi * (mp(k) + mp(0.75)) / (mp(K) + mp(0.5)));
    mp dp = 1;
    for (int it = 0; it < 100; ++it) {
      mp p0 = 1, p1 = x;
      for (int n = 2; n <= K; ++n) { mp p2 = ((2 * n - 1) * x * p1 - (n - 1) * p0) / n; p0 = p1; p1 = p2; }
      dp = K * (x * p1 - p0) / (x * x - 1);
      mp dx = p1 / dp;
      x -= dx;
      if (abs(dx) < mp("1e-45")) break;
    }
    // recompute derivative at the converged node
    mp p0 = 1, p1 = x;
    for (int n = 2; n <= K; ++n) { mp p2 = ((2 * n - 1) * x * p1 - (n - 1) * p0) / n; p0 = p1; p1 = p2; }
    dp = K * (x * p1 - p0) / (x * x - 1);
    xs[(size_t)k] = x; ws[(size_t)k] = 2 / ((1 - x * x) * dp * dp);
  }
  mp worst = 0;
  for (int m = 0; m <= N; m += (mstride > 0 ? mstride : 1)) {
    // P[n-m][k]
    std::vector<std::vector<mp>> P((size_t)(N - m + 1), std::vector<mp>((size_t)K));
    for (int k = 0; k < K; ++k) {
      mp t = xs[(size_t)k], u = sqrt(1 - t * t);
      mp Qmm = 1;
      for (int j = 1; j <= m; ++j) Qmm *= (2 * j - 1) * u;
      mp Q2 = 0, Q1 = 0, Q;
      for (int n = m; n <= N; ++n) {
        if (n == m) Q = Qmm; else Q = ((2 * n - 1) * t * Q1 - (n + m - 1) * Q2) / (n - m);
        P[(size_t)(n - m)][(size_t)k] = T.f[tri(n, m)] * Q;
        Q2 = Q1; Q1 = Q;
      }
    }
    for (int n = m; n <= N; ++n)
      for (int n2 = n; n2 <= N; ++n2) {
        mp I = 0;
        for (int k = 0; k < K; ++k) I += ws[(size_t)k] * P[(size_t)(n - m)][(size_t)k] * P[(size_t)(n2 - m)][(size_t)k];
        // mean square over the sphere of P cos(m lam): I/2 * (m ? 1/2 : 1)
        mp ms = I / 2 * (m ? mp(0.5) : mp(1));
        mp expect = n == n2 ? (norm == FULL ? mp(1) : mp(1) / (2 * n + 1)) : mp(0);
        mp scale = norm == FULL ? mp(1) : mp(1) / sqrt(mp(2 * n + 1) * mp(2 * n2 + 1));
        mp d = abs(ms - expect) / scale;
        if (d > worst) worst = d;
      }
  }
  return worst.convert_to<long double>();
}

}}  // namespace ref::sh
