// R-GEOID: reference interpolation of a world-wide geoid raster (DESIGN 1.4, doc pages "geoidformat",
// "geoidinterp").  Header only, long double.
//
//  * raster: h rows x w columns, pixel (0,0) at lat 90, lon 0; row spacing 180/(h-1) deg southwards,
//    column spacing 360/w deg eastwards; height = offset + scale * pixel.
//  * the grid continued across a pole: row -k is row k seen from the other side, i.e. shifted by w/2
//    columns (w is even for exactly this reason); columns are periodic.
//  * bilinear: the 4 corners of the enclosing cell.
//  * cubic: weighted least-squares fit of a full cubic (10 terms) to the 12-point stencil
//        . 1 1 .
//        1 2 2 1
//        1 2 2 1
//        . 1 1 .
//    solved here *per query* from the normal equations A c = b, A = sum w_i B_i B_i^T, b = sum w_i v_i B_i
//    (Lesh 1959, as cited), by Gaussian elimination with partial pivoting in long double, in coordinates
//    centred on the cell (x - 1/2, y - 1/2: the cubic space is translation invariant, the conditioning is
//    much better).  In the two polar rows of cells the basis loses the pure-x terms at the pole edge (x, x^2,
//    x^3 in coordinates with y = 0 at the pole), which is the documented "independent of longitude at the
//    pole" constraint; the south row is the north row mirrored (y -> 1 - y).
//    No integer table of the library (c3_, c3n_, c3s_, c0*) is used or copied.
//  * cell location: x = lon_normalised * w/360, y = (90 - lat) * (h-1)/180 in long double.  A point within
//    a few double ulps of a cell edge may legitimately be assigned to either neighbour by the library (the
//    cubic has small jumps there), so locate() returns every admissible cell and callers accept the best.
#pragma once
#include <algorithm>
#include <cmath>
#include <cstdint>
#include <vector>

namespace ref { namespace geoid {

typedef long double L;

struct Raster {
  int w = 0, h = 0;
  double offset = 0, scale = 1;
  std::vector<uint16_t> px;   // row-major, row 0 = north pole
  // pixel with periodic columns and pole reflection (any ix, iy in [-(h-1), 2(h-1)])
  L at(long ix, long iy) const {
    if (iy < 0) { iy = -iy; ix += w / 2; }
    else if (iy > h - 1) { iy = 2L * (h - 1) - iy; ix += w / 2; }
    ix %= w; if (ix < 0) ix += w;
    return (L)px[(size_t)iy * (size_t)w + (size_t)ix];
  }
};

struct Cell { long ix, iy; L fx, fy; };

inline L norm_lon(double lon) {     // [-180, 180)
  L l = remainderl((L)lon, 360.0L);
  if (l >= 180) l -= 360;
  return l;
}

// all admissible (cell, fraction) pairs for a point; first entry is the nominal one
inline std::vector<Cell> locate(const Raster& r, double lat, double lon, L* xabs = nullptr, L* yabs = nullptr) {
  L x = norm_lon(lon) * r.w / 360.0L;
  L y = (90.0L - (L)lat) * (r.h - 1) / 180.0L;
  if (xabs) *xabs = fabsl(x);
  if (yabs) *yabs = fabsl((L)lat) * (r.h - 1) / 180.0L;   // the library forms -lat * ((h-1)/180): that product carries the rounding
  std::vector<std::pair<long, L>> xs, ys;
  long ix = (long)floorl(x); L fx = x - ix;
  xs.push_back({ix, fx});
  L slackx = 16 * 2.3e-16L * std::max<L>(1, fabsl(x)) + 16 * 2.3e-16L * r.w;   // lon normalisation and the product both round
  if (fx < slackx) xs.push_back({ix - 1, fx + 1});
  if (1 - fx < slackx) xs.push_back({ix + 1, fx - 1});
  long iy = (long)floorl(y); if (iy > r.h - 2) iy = r.h - 2; if (iy < 0) iy = 0;
  L fy = y - iy;
  ys.push_back({iy, fy});
  L slacky = 16 * 2.3e-16L * std::max<L>(1, fabsl(y)) + 16 * 2.3e-16L * r.h;
  if (fy < slacky && iy > 0) ys.push_back({iy - 1, fy + 1});
  if (1 - fy < slacky && iy < r.h - 2) ys.push_back({iy + 1, fy - 1});
  std::vector<Cell> out;
  for (auto& a : xs) for (auto& b : ys) out.push_back({a.first, b.first, a.second, b.second});
  return out;
}

struct Val { L h = 0, dhdx = 0, dhdy = 0, vmax = 0; };   // height [m], derivatives per cell, largest |pixel term|

inline Val bilinear(const Raster& r, const Cell& c) {
  L v00 = r.at(c.ix, c.iy), v01 = r.at(c.ix + 1, c.iy), v10 = r.at(c.ix, c.iy + 1), v11 = r.at(c.ix + 1, c.iy + 1);
  Val o;
  L a = (1 - c.fx) * v00 + c.fx * v01, b = (1 - c.fx) * v10 + c.fx * v11;
  o.h = (L)r.offset + (L)r.scale * ((1 - c.fy) * a + c.fy * b);
  o.dhdx = (L)r.scale * ((1 - c.fy) * (v01 - v00) + c.fy * (v11 - v10));
  o.dhdy = (L)r.scale * (b - a);
  o.vmax = std::max(std::max(v00, v01), std::max(v10, v11));
  return o;
}

// solve the n x n system (row-major A, rhs b) in place; returns false if singular
inline bool solve(int n, std::vector<L>& A, std::vector<L>& b) {
  for (int k = 0; k < n; ++k) {
    int piv = k; L best = fabsl(A[(size_t)k * n + k]);
    for (int i = k + 1; i < n; ++i) if (fabsl(A[(size_t)i * n + k]) > best) { best = fabsl(A[(size_t)i * n + k]); piv = i; }
    if (best == 0) return false;
    if (piv != k) { for (int j = 0; j < n; ++j) std::swap(A[(size_t)k * n + j], A[(size_t)piv * n + j]); std::swap(b[(size_t)k], b[(size_t)piv]); }
    for (int i = k + 1; i < n; ++i) {
      L f = A[(size_t)i * n + k] / A[(size_t)k * n + k];
      if (f == 0) continue;
      for (int j = k; j < n; ++j) A[(size_t)i * n + j] -= f * A[(size_t)k * n + j];
      b[(size_t)i] -= f * b[(size_t)k];
    }
  }
  for (int k = n - 1; k >= 0; --k) {
    L s = b[(size_t)k];
    for (int j = k + 1; j < n; ++j) s -= A[(size_t)k * n + j] * b[(size_t)j];
    b[(size_t)k] = s / A[(size_t)k * n + k];
  }
  return true;
}

// weighted LSQ fit on the 12-point stencil.  v[12] in the order (x,y): (0,-1)(1,-1) (-1,0)(0,0)(1,0)(2,0)
// (-1,1)(0,1)(1,1)(2,1) (0,2)(1,2).  polar: 0 none, +1 the edge y = 0 is a pole, -1 the edge y = 1 is a pole.
// Evaluates the fitted polynomial and its derivatives at (fx, fy).
inline bool cubic_fit_eval(const L v[12], int polar, L fx, L fy, L& val, L& dx, L& dy) {
  static const int sx[12] = {0, 1, -1, 0, 1, 2, -1, 0, 1, 2, 0, 1};
  static const int sy[12] = {-1, -1, 0, 0, 0, 0, 1, 1, 1, 1, 2, 2};
  static const int sw[12] = {1, 1, 1, 2, 2, 1, 1, 2, 2, 1, 1, 1};
  // exponents of the full cubic
  static const int ex[10] = {0, 1, 0, 2, 1, 0, 3, 2, 1, 0};
  static const int ey[10] = {0, 0, 1, 0, 1, 2, 0, 1, 2, 3};
  // coordinates: X = x - 1/2 always; Y = y - 1/2 (no pole), Y = y (pole at y = 0), Y = 1 - y (pole at y = 1)
  int use[10], n = 0;
  for (int k = 0; k < 10; ++k) if (!(polar != 0 && ex[k] > 0 && ey[k] == 0)) use[n++] = k;
  auto Yof = [&](L y) { return polar == 0 ? y - 0.5L : (polar > 0 ? y : 1 - y); };
  std::vector<L> A((size_t)n * n, 0.0L), b((size_t)n, 0.0L);
  for (int i = 0; i < 12; ++i) {
    L X = sx[i] - 0.5L, Y = Yof((L)sy[i]);
    L B[10];
    for (int k = 0; k < n; ++k) B[k] = powl(X, ex[use[k]]) * powl(Y, ey[use[k]]);
    for (int p = 0; p < n; ++p) {
      for (int q = 0; q < n; ++q) A[(size_t)p * n + q] += sw[i] * B[p] * B[q];
      b[(size_t)p] += sw[i] * v[i] * B[p];
    }
  }
  if (!solve(n, A, b)) return false;
  L X = fx - 0.5L, Y = Yof(fy), sgn = polar < 0 ? -1.0L : 1.0L;
  val = dx = dy = 0;
  for (int k = 0; k < n; ++k) {
    int a = ex[use[k]], c = ey[use[k]];
    val += b[(size_t)k] * powl(X, a) * powl(Y, c);
    if (a > 0) dx += b[(size_t)k] * a * powl(X, a - 1) * powl(Y, c);
    if (c > 0) dy += b[(size_t)k] * c * powl(X, a) * powl(Y, c - 1) * sgn;
  }
  return true;
}

inline void stencil(const Raster& r, long ix, long iy, L v[12]) {
  static const int sx[12] = {0, 1, -1, 0, 1, 2, -1, 0, 1, 2, 0, 1};
  static const int sy[12] = {-1, -1, 0, 0, 0, 0, 1, 1, 1, 1, 2, 2};
  for (int i = 0; i < 12; ++i) v[i] = r.at(ix + sx[i], iy + sy[i]);
}

inline bool cubic(const Raster& r, const Cell& c, Val& o) {
  L v[12]; stencil(r, c.ix, c.iy, v);
  int polar = c.iy == 0 ? 1 : (c.iy == r.h - 2 ? -1 : 0);
  L val, dx, dy;
  if (!cubic_fit_eval(v, polar, c.fx, c.fy, val, dx, dy)) return false;
  o.h = (L)r.offset + (L)r.scale * val;
  o.dhdx = (L)r.scale * dx; o.dhdy = (L)r.scale * dy;
  o.vmax = 0; for (int i = 0; i < 12; ++i) o.vmax = std::max(o.vmax, v[i]);
  return true;
}

}}  // namespace ref::geoid
