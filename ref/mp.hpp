// R-MP: closed-form reference models evaluated with boost::multiprecision (50 digits per point,
// 100 digits for the one-off projection constants).  Plain double / long double API: callers do
// not include boost (implementation in ref/mp.cpp, add it to "extra_src" of the unit).
//
// Everything here is written from the textbook definitions (Snyder, "Map projections: a working
// manual", USGS PP 1395; equation numbers in mp.cpp) and shares no formula arrangement with
// /repo: no divided differences, no Newton inversion of the projections, no tau/tau' machinery.
// Where a textbook formula is of the form 0/0 or inf-inf in a limit that the library supports
// (cone constant n -> 0, a standard parallel at a pole) the *limit* of the same formula is taken
// (sin(n lam)/n = lam sinc(n lam), (t0^n - t^n)/n = -t0^n (ln t - ln t0) expm1(x)/x, ...).
#pragma once
#include <cmath>

namespace mpr {

typedef long double L;

struct V3 { L x, y, z; };

// ---------------------------------------------------------------- angles
// exact-argument-reduction sine and cosine of an angle in degrees (50 digits, rounded to L)
void sincosd(double deg, L& s, L& c);
// (lon - lon0) reduced to [-180, 180] exactly; *at180 set when the result is +-180 (sign ambiguous)
L lamdiff(double lon0, double lon, bool* at180);

// ---------------------------------------------------------------- ellipsoid, auxiliary latitudes
struct Aux {
  L sphi, cphi;      // of the geodetic latitude
  L psi;             // isometric latitude  asinh(tan phi) - e atanh(e sin phi)   (+-inf at the poles)
  L chi;             // conformal latitude [deg]
  L xi;              // authalic latitude [deg]
  L beta;            // parametric latitude [deg]
  L theta;           // geocentric latitude [deg]
  L q, qp;           // Snyder 3-12 and its polar value
  L m;               // Snyder 14-15: cos phi / sqrt(1 - e2 sin^2 phi)   (radius of the parallel / a)
  L t;               // Snyder 15-9 (0 at the north pole, +inf at the south pole)
  L N, M;            // prime-vertical and meridional radii of curvature / a
};
Aux aux(double f, double lat);

// area of the geographic rectangle [lat1,lat2] x dlon (degrees) on the ellipsoid (a, f)   [m^2, signed]
L rect_area(double a, double f, double lat1, double lat2, L dlon_deg);

// ---------------------------------------------------------------- geocentric
V3 geoc_forward(double a, double f, double lat, double lon, double h);
// | geoc_forward(lat,lon,h) - (X,Y,Z) | evaluated in 50 digits (no overflow); *rnorm = |(X,Y,Z)|
L geoc_reproj(double a, double f, double lat, double lon, double h, double X, double Y, double Z, L* rnorm);
// east, north, up unit vectors at (lat, lon) as the COLUMNS of the row-major 3x3 matrix M
void enu(double lat, double lon, L M[9]);
// distance from (X,Y,Z) to the ellipsoid surface (global minimum over all normal feet);
// *inside = point is inside the ellipsoid.  Found by a two-level scan of the foot-point equation
// in the meridian plane, refined by bisection, final distance evaluated in 50 digits.
L dist_to_ellipsoid(double a, double f, double X, double Y, double Z, bool* inside);
// local cartesian closed form: R0^T (G(lat,lon,h) - G(lat0,lon0,h0)),  R0 = enu(lat0,lon0)
V3 local_forward(double a, double f, double lat0, double lon0, double h0, double lat, double lon, double h);
// R0^T * enu(lat,lon)
void local_matrix(double lat0, double lon0, double lat, double lon, L M[9]);

// ---------------------------------------------------------------- projections
struct PO {
  L x, y;        // metres
  L gamma;       // meridian convergence [deg] (not reduced)
  L k;           // scale (Albers: azimuthal scale); NaN where undefined (0/0 at a pole)
  int inf;       // the point projects to infinity (x, y then meaningless)
  L arc;         // length of the image of the parallel between the central meridian and the point
                 // (rho |theta|, metres): conditioning of x, y with respect to the longitude
  L rho;         // distance of the image from the apex of the cone (metres; +inf for a cylindrical limit):
                 // a map error d changes k by d / rho (relative)
};

// polar stereographic, Snyder 21-33 / 21-34 (k0 = scale at the pole); lam = longitude [deg]
PO ps_forward(double a, double f, double k0, bool northp, double lat, L lam);
// k0 such that the scale at latitude lat (north aspect) is k     (SetScale)
L ps_k0_for_scale(double a, double f, double lat, double k);
// Mercator with scale k0 on the equator
PO mercator_forward(double a, double f, double k0, double lat, L lam);

// Lambert conformal conic (Snyder 15-1 .. 15-11) and Albers equal-area conic (14-12 .. 14-21)
// with scale k1 on the standard parallels, origin of y on the parallel of minimum (azimuthal) scale.
class Conic {
 public:
  enum Kind { LCC = 0, ALBERS = 1 };
  // standard parallels given by (sin, cos) (normalised here by their hypot)
  Conic(Kind kind, double a, double f, double s1, double c1, double s2, double c2, double k1);
  // standard parallels in degrees
  static Conic deg(Kind kind, double a, double f, double lat1, double lat2, double k1);
  Conic(const Conic&);
  Conic& operator=(const Conic&);
  ~Conic();
  bool valid() const;        // false: parameters outside the mathematical domain (opposite poles, ...)
  L n() const;               // cone constant (signed; Albers: includes the factor k^2 of the scaled projection)
  L lat0() const;            // origin latitude [deg]
  L k0() const;              // scale on the origin parallel
  L nc2() const;             // 1 - sin^2(lat0), accurate near the poles
  PO forward(double lat, L lam_deg) const;
  // multiply the scale so that the (azimuthal) scale at latitude lat becomes k (SetScale)
  void set_scale(double lat, double k);
 private:
  struct Impl;
  Impl* p_;
};

// development-time self test of this file (identities, naive-formula comparison); 0 = ok
int selftest(bool verbose);

}  // namespace mpr
