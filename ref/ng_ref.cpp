// R-NG implementation (see ng_ref.hpp).  100-digit binary floating point.
#include "ng_ref.hpp"

#include <boost/multiprecision/cpp_bin_float.hpp>
#include <cmath>
#include <map>
#include <vector>

namespace ref { namespace ng {

namespace mpn = boost::multiprecision;
typedef mpn::number<mpn::cpp_bin_float<100>, mpn::et_off> mp;

namespace {

// Q and H as functions of x = z^2 = (E/u)^2 (oblate, x > 0) or x = -z'^2/(1+z'^2) (prolate, -1 < x < 0; then
// Q'(z') = Q(z), H'(z') = H(z), see the documentation).  For |x| >= 0.01 the plain closed expressions are used;
// below that their leading terms cancel (relative loss x^-2), so the Taylor series of the *same* closed
// expressions are summed instead:
//   Q = sum_{j>=1} (-1)^(j+1) 2j x^(j-1) / ((2j+1)(2j+3)),   H = sum_{j>=2} (-1)^j 6 x^(j-2) / ((2j-1)(2j+1))
// (ng_selftest compares the two forms at the switch).
mp Qobl(const mp& z) { return ((1 + 3 / (z * z)) * atan(z) - 3 / z) / (2 * z * z * z); }
mp Hobl(const mp& z) { mp z2 = z * z; return (3 * (1 + z2) * (1 - atan(z) / z) - z2) / (z2 * z2); }
mp Qpro(const mp& z) {
  mp z2 = z * z, s = sqrt(1 + z2);
  return s * s * s / (2 * z2 * z) * ((2 + 3 / z2) * asinh(z) - 3 * s / z);
}
mp Hpro(const mp& z) {
  mp z2 = z * z, s = sqrt(1 + z2);
  return (1 + z2) / (z2 * z2) * (3 * (1 - s * asinh(z) / z) + z2);
}
mp Qser(const mp& x) {
  mp s = 0, xp = 1;
  for (int j = 1; j < 400; ++j) {
    mp t = xp * (2 * j) / (mp(2 * j + 1) * mp(2 * j + 3));
    s += (j & 1) ? t : mp(-t);
    if (abs(t) < mp("1e-110")) break;
    xp *= x;
  }
  return s;
}
mp Hser(const mp& x) {
  mp s = 0, xp = 1;
  for (int j = 2; j < 400; ++j) {
    mp t = xp * 6 / (mp(2 * j - 1) * mp(2 * j + 1));
    s += (j & 1) ? mp(-t) : t;
    if (abs(t) < mp("1e-110")) break;
    xp *= x;
  }
  return s;
}
mp Qx(const mp& x, bool series_ok = true) {
  if (series_ok && abs(x) < mp(0.01)) return Qser(x);
  if (x > 0) return Qobl(sqrt(x));
  return Qpro(sqrt(-x / (1 + x)));
}
mp Hx(const mp& x, bool series_ok = true) {
  if (series_ok && abs(x) < mp(0.01)) return Hser(x);
  if (x > 0) return Hobl(sqrt(x));
  return Hpro(sqrt(-x / (1 + x)));
}

struct Geo {
  mp a, b, GM, w2, E, Q0, H0, e2;
  int shape;   // +1 oblate, 0 sphere, -1 prolate
};

Geo setup(const Params& p) {
  Geo g;
  g.a = p.a; mp f = p.f;
  g.b = g.a * (1 - f);
  g.e2 = f * (2 - f);
  g.GM = p.GM; mp w = p.omega; g.w2 = w * w;
  g.shape = p.f > 0 ? 1 : (p.f < 0 ? -1 : 0);
  if (g.shape > 0) { g.E = sqrt(g.a * g.a - g.b * g.b); mp x0 = g.E * g.E / (g.b * g.b); g.Q0 = Qx(x0); g.H0 = Hx(x0); }
  else if (g.shape < 0) { g.E = sqrt(g.b * g.b - g.a * g.a); mp x0 = -(g.E * g.E) / (g.b * g.b); g.Q0 = Qx(x0); g.H0 = Hx(x0); }
  else { g.E = 0; g.Q0 = mp(2) / 15; g.H0 = mp(2) / 5; }
  return g;
}

struct P2 { mp Um, Uq, uob; };

// gravitational potential at cylindrical (R^2, Z)
P2 v0(const Geo& g, const mp& R2, const mp& Z) {
  P2 o;
  mp r2 = R2 + Z * Z;
  mp third = mp(1) / 3;
  if (g.shape > 0) {
    mp D = r2 - g.E * g.E;
    mp w = (D + sqrt(D * D + 4 * Z * Z * g.E * g.E)) / 2;   // u^2
    mp u = sqrt(w);
    mp sb2 = Z * Z / w;
    o.Um = g.GM / g.E * atan(g.E / u);
    o.Uq = g.w2 / 2 * g.a * g.a * g.b * g.b * g.b / (u * u * u) * Qx(g.E * g.E / w) / g.Q0 * (sb2 - third);
    o.uob = u / g.b;
  } else if (g.shape < 0) {
    mp D = r2 - g.E * g.E;
    mp w = (D + sqrt(D * D + 4 * R2 * g.E * g.E)) / 2;      // u'^2
    mp u = sqrt(w);
    mp v2 = w + g.E * g.E;
    mp sb2 = Z * Z / v2;
    o.Um = g.GM / g.E * asinh(g.E / u);
    o.Uq = g.w2 / 2 * g.a * g.a * g.b * g.b * g.b / (v2 * sqrt(v2)) * Qx(-(g.E * g.E) / v2) / g.Q0 * (sb2 - third);
    o.uob = u / g.a;
  } else {
    mp r = sqrt(r2);
    o.Um = g.GM / r;
    mp a2 = g.a * g.a;
    o.Uq = g.w2 / 2 * a2 * a2 * g.a / (r2 * r) * (Z * Z / r2 - third);
    o.uob = r / g.a;
  }
  return o;
}

inline void split(const mp& v, long double& hi, long double& lo) {
  hi = v.convert_to<long double>();
  mp d = v - mp(hi);
  lo = d.convert_to<long double>();
}

Pot potential_mp(const Geo& g, const mp& X, const mp& Y, const mp& Z, bool grad) {
  Pot out;
  mp R2 = X * X + Y * Y;
  P2 c = v0(g, R2, Z);
  mp V0 = c.Um + c.Uq, Phi = g.w2 / 2 * R2;
  split(V0, out.V0, out.V0lo);
  out.Phi = Phi.convert_to<long double>();
  split(V0 + Phi, out.U, out.Ulo);
  out.uob = c.uob.convert_to<long double>();
  out.Um = abs(c.Um).convert_to<long double>();
  out.Uq = abs(c.Uq).convert_to<long double>();
  if (grad) {
    mp r = sqrt(R2 + Z * Z);
    mp h = ldexp(r, -70), lap = 0;
    mp xs[3] = {X, Y, Z};
    for (int i = 0; i < 3; ++i) {
      mp p[3] = {xs[0], xs[1], xs[2]}, m[3] = {xs[0], xs[1], xs[2]};
      p[i] += h; m[i] -= h;
      P2 a = v0(g, p[0] * p[0] + p[1] * p[1], p[2]), b = v0(g, m[0] * m[0] + m[1] * m[1], m[2]);
      mp Vp = a.Um + a.Uq, Vm = b.Um + b.Uq;
      mp gi = (Vp - Vm) / (2 * h);
      out.G[i] = gi.convert_to<long double>();
      mp fi = i < 2 ? mp(g.w2 * xs[i]) : mp(0);
      out.gam[i] = mp(gi + fi).convert_to<long double>();
      lap += (Vp + Vm - 2 * V0) / (h * h);
    }
    mp sc = abs(c.Um) + abs(c.Uq);
    if (sc > 0) {
      mp rel = abs(lap) * r * r / sc;
      out.lap = rel.convert_to<long double>();
      out.ok = out.lap < 1e-30L;
    }
  }
  return out;
}

void geodetic(const Geo& g, double lat, double h, mp& R, mp& Z) {
  const mp pi = boost::math::constants::pi<mp>();
  mp phi = mp(lat) * pi / 180;
  mp s = sin(phi), c = cos(phi);
  if (lat == 90) { s = 1; c = 0; } else if (lat == -90) { s = -1; c = 0; }
  mp N = g.a / sqrt(1 - g.e2 * s * s);
  R = (N + mp(h)) * c;
  Z = (N * (1 - g.e2) + mp(h)) * s;
}

}  // namespace

Pot potential(const Params& p, double X, double Y, double Z, bool grad) {
  Geo g = setup(p);
  return potential_mp(g, mp(X), mp(Y), mp(Z), grad);
}

Pot potential_geodetic(const Params& p, double lat, double h, bool grad, long double* XYZ) {
  Geo g = setup(p);
  mp R, Z; geodetic(g, lat, h, R, Z);
  if (XYZ) { XYZ[0] = R.convert_to<long double>(); XYZ[1] = 0; XYZ[2] = Z.convert_to<long double>(); }
  return potential_mp(g, R, mp(0), Z, grad);
}

long double U0(const Params& p) {
  Geo g = setup(p);
  mp um = g.shape > 0 ? mp(g.GM / g.E * atan(g.E / g.b)) : g.shape < 0 ? mp(g.GM / g.E * asinh(g.E / g.a)) : mp(g.GM / g.a);
  return mp(um + g.w2 * g.a * g.a / 3).convert_to<long double>();
}

long double gamma_e(const Params& p) {
  Geo g = setup(p);
  return mp(g.GM / (g.a * g.b) - g.w2 * g.a / 6 * g.H0 / g.Q0 - g.w2 * g.a).convert_to<long double>();
}
long double gamma_p(const Params& p) {
  Geo g = setup(p);
  return mp(g.GM / (g.a * g.a) + g.w2 * g.b / 3 * g.H0 / g.Q0).convert_to<long double>();
}

long double surface_gravity(const Params& p, double lat) {
  Geo g = setup(p);
  mp ga = g.GM / (g.a * g.b) - g.w2 * g.a / 6 * g.H0 / g.Q0 - g.w2 * g.a;
  mp gb = g.GM / (g.a * g.a) + g.w2 * g.b / 3 * g.H0 / g.Q0;
  const mp pi = boost::math::constants::pi<mp>();
  mp phi = mp(lat) * pi / 180, s = sin(phi), c = cos(phi);
  if (lat == 90 || lat == -90) { s = 1; c = 0; }
  mp s2 = s * s, c2 = c * c;
  return mp((g.a * ga * c2 + g.b * gb * s2) / sqrt(g.a * g.a * c2 + g.b * g.b * s2)).convert_to<long double>();
}

static mp J2mp(const Geo& g) {
  mp geom = g.shape > 0 ? mp(g.E * g.E / (3 * g.a * g.a)) : g.shape < 0 ? mp(-g.E * g.E / (3 * g.a * g.a)) : mp(0);
  return geom - 2 * g.b * g.b * g.b * g.w2 / (45 * g.GM * g.Q0);
}

long double series_switch_defect() {
  // closed expressions vs their Taylor series at the switch |x| = 0.01 (both signs)
  mp w = 0;
  for (int sgn = -1; sgn <= 1; sgn += 2) {
    mp x = mp(sgn) * mp(0.01);
    mp d1 = abs(Qx(x, false) - Qser(x)) / abs(Qser(x)), d2 = abs(Hx(x, false) - Hser(x)) / abs(Hser(x));
    if (d1 > w) w = d1; if (d2 > w) w = d2;
  }
  return w.convert_to<long double>();
}

long double J2(const Params& p) { return J2mp(setup(p)).convert_to<long double>(); }

long double dJ2df(const Params& p) {
  // derivative with respect to f at fixed a, GM, omega: symmetric difference in 100 digits
  Geo g0 = setup(p);
  mp f = p.f, df = mp(1e-25);
  auto at = [&](const mp& ff) {
    Geo g = g0;
    g.b = g.a * (1 - ff); g.e2 = ff * (2 - ff);
    if (ff > 0) { g.shape = 1; g.E = sqrt(g.a * g.a - g.b * g.b); g.Q0 = Qx(g.E * g.E / (g.b * g.b)); }
    else { g.shape = -1; g.E = sqrt(g.b * g.b - g.a * g.a); g.Q0 = Qx(-(g.E * g.E) / (g.b * g.b)); }
    return J2mp(g);
  };
  if (abs(f) < mp(1e-20)) { df = mp(1e-13); return mp((at(df) - at(-df)) / (2 * df)).convert_to<long double>(); }
  df = abs(f) * mp(1e-20);
  return mp((at(f + df) - at(f - df)) / (2 * df)).convert_to<long double>();
}

namespace {
struct GL { std::vector<mp> xs, ws; };
const GL& gauss_legendre(int K) {
  static std::map<int, GL> tab;
  auto it = tab.find(K);
  if (it != tab.end()) return it->second;
  GL& t = tab[K];
  const mp pi = boost::math::constants::pi<mp>();
  t.xs.resize((size_t)K); t.ws.resize((size_t)K);
  for (int k = 0; k < K; ++k) {
    mp x = cos(pi * (mp(k) + mp(0.75)) / (mp(K) + mp(0.5))), dp = 1;
    for (int it2 = 0; it2 < 200; ++it2) {
      mp p0 = 1, p1 = x;
      for (int n = 2; n <= K; ++n) { mp p2 = ((2 * n - 1) * x * p1 - (n - 1) * p0) / n; p0 = p1; p1 = p2; }
      dp = K * (x * p1 - p0) / (x * x - 1);
      mp dx = p1 / dp; x -= dx;
      if (abs(dx) < mp("1e-95")) break;
    }
    mp p0 = 1, p1 = x;
    for (int n = 2; n <= K; ++n) { mp p2 = ((2 * n - 1) * x * p1 - (n - 1) * p0) / n; p0 = p1; p1 = p2; }
    dp = K * (x * p1 - p0) / (x * x - 1);
    t.xs[(size_t)k] = x; t.ws[(size_t)k] = 2 / ((1 - x * x) * dp * dp);
  }
  return t;
}
struct JCache { Params p; int nmax; std::vector<long double> J; long double err; };
std::vector<JCache> g_jcache;
}  // namespace

std::vector<long double> zonal_J(const Params& p, int nmax, long double* abserr) {
  for (const JCache& c : g_jcache)
    if (c.p.a == p.a && c.p.GM == p.GM && c.p.omega == p.omega && c.p.f == p.f && c.nmax >= nmax) {
      if (abserr) *abserr = c.err;
      return std::vector<long double>(c.J.begin(), c.J.begin() + nmax + 1);
    }
  Geo g = setup(p);
  // number of nodes: the rule is exact up to degree 2K-1; the integrand V0 P_n has a Legendre expansion
  // decaying like (E/r0)^k, so aliasing is below 1e-45 (r0/a)^n once 2K - 1 - nmax >= 104/log10... (see abserr)
  int K = 128;
  {
    mp r0t = 2 * (g.a > g.b ? g.a : g.b);
    long double rho = mp(g.E / r0t).convert_to<long double>();
    // aliasing of degree-k' >= 2K - n terms into J_n is ~ (r0/a)^n rho^(2K-n), i.e. rho^(2K-2n) relative to
    // J_n ~ (E/a)^n; demand 1e-25 relative at n = nmax (constants up to ~1e3 are covered by abserr below)
    for (int k : {16, 24, 32, 48, 64, 96, 128, 192, 256}) {
      K = k;
      if (2 * k - 1 < 2 * nmax + 2) continue;
      if (rho == 0 || powl(rho, 2 * k - 2 * nmax) < 1e-25L) break;
    }
  }
  const GL& gl = gauss_legendre(K);
  const std::vector<mp>& xs = gl.xs; const std::vector<mp>& ws = gl.ws;
  mp r0 = 2 * (g.a > g.b ? g.a : g.b);
  std::vector<mp> acc((size_t)nmax + 1, mp(0));
  for (int k = 0; k < K; ++k) {
    mp t = xs[(size_t)k], Z = r0 * t, R2 = r0 * r0 * (1 - t * t);
    P2 c = v0(g, R2, Z);
    mp val = (c.Um + c.Uq) * r0 / g.GM * ws[(size_t)k];
    mp p0 = 1, p1 = t;
    for (int n = 0; n <= nmax; ++n) {
      mp pn;
      if (n == 0) pn = 1; else if (n == 1) pn = t;
      else { pn = ((2 * n - 1) * t * p1 - (n - 1) * p0) / n; p0 = p1; p1 = pn; }
      acc[(size_t)n] += val * pn;
    }
  }
  std::vector<long double> J((size_t)nmax + 1);
  mp ra = r0 / g.a, pw = 1;
  mp rho = g.E / r0;
  long double worst = 0;
  for (int n = 0; n <= nmax; ++n) {
    mp jn = -(2 * n + 1) * acc[(size_t)n] / 2 * pw;
    J[(size_t)n] = jn.convert_to<long double>();
    mp e = 1000 * pw * pow(rho, 2 * K - n) * (2 * n + 1) + abs(jn) * mp("1e-90") + mp("1e-95") * pw;
    long double el = e.convert_to<long double>();
    if (el > worst) worst = el;
    pw *= ra;
  }
  if (abserr) *abserr = worst;
  if (g_jcache.size() > 64) g_jcache.erase(g_jcache.begin());
  g_jcache.push_back(JCache{p, nmax, J, worst});
  return J;
}

}}  // namespace ref::ng
