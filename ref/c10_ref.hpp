// Reference models for C10.b/d written from the header documentation (Utility.hpp, DMS.hpp):
// normal-form parser of DMS::Encode output, trim, ParseLine, numeric-string acceptors.
#pragma once
#include <cerrno>
#include <climits>
#include <cmath>
#include <cstdlib>
#include <cstring>
#include <string>

namespace c10ref {
typedef long double L;

// ---- normal form of DMS::Encode output: [-]DEG[.f] | [-]DEG sep MM[.f]['] | [-]DEG sep MM sep SS[.f]["] then [NSEW]
struct NF {
  bool ok = false; std::string why;
  bool neg = false; std::string deg, mn, sc, frac; bool point = false; char hemi = 0;
  L value() const {   // magnitude in degrees
    std::string f = point ? "." + frac : "";
    if (!sc.empty()) return std::strtold(deg.c_str(), nullptr) + (std::strtold(mn.c_str(), nullptr) + std::strtold((sc + f).c_str(), nullptr) / 60) / 60;
    if (!mn.empty()) return std::strtold(deg.c_str(), nullptr) + std::strtold((mn + f).c_str(), nullptr) / 60;
    return std::strtold((deg + f).c_str(), nullptr);
  }
};
inline NF parse_nf(const std::string& s, int trailing, char sep, bool number) {
  NF r; size_t p = 0, n = s.size();
  auto digits = [&](std::string& o) { while (p < n && s[p] >= '0' && s[p] <= '9') o += s[p++]; };
  auto fail = [&](const char* w) { r.ok = false; r.why = w; return r; };
  if (p < n && s[p] == '-') { r.neg = true; ++p; }
  digits(r.deg); if (r.deg.empty()) return fail("no degree digits");
  auto fracpart = [&]() -> bool { if (p < n && s[p] == '.') { r.point = true; ++p; digits(r.frac); return !r.frac.empty(); } return true; };
  if (number || trailing == 0) { if (!fracpart()) return fail("decimal point without digits"); }
  else {
    char s1 = sep ? sep : 'd';
    if (!(p < n && s[p] == s1)) return fail("degree separator"); ++p;
    digits(r.mn); if (r.mn.empty()) return fail("no minute digits");
    if (trailing == 1) {
      if (!fracpart()) return fail("decimal point without digits");
      if (!sep) { if (!(p < n && s[p] == '\'')) return fail("minute designator"); ++p; }
    } else {
      char s2 = sep ? sep : '\'';
      if (!(p < n && s[p] == s2)) return fail("minute separator"); ++p;
      digits(r.sc); if (r.sc.empty()) return fail("no second digits");
      if (!fracpart()) return fail("decimal point without digits");
      if (!sep) { if (!(p < n && s[p] == '"')) return fail("second designator"); ++p; }
    }
  }
  if (p < n && std::strchr("NSEW", s[p])) r.hemi = s[p++];
  if (p != n) return fail("trailing text");
  r.ok = true; return r;
}

// ---- Utility::trim / ParseLine
inline bool isws(char c) { return c == ' ' || (c >= 9 && c <= 13); }
inline std::string trim(const std::string& s) {
  size_t a = 0, b = s.size();
  while (a < b && isws(s[a])) ++a;
  while (a < b && isws(s[b - 1])) --b;
  return s.substr(a, b - a);
}
// "The comment character and everything after it are discarded and the result trimmed of leading and
// trailing white space.  Use the equals delimiter character (or, if it is NULL, the first white space)
// to separate key and value.  key and value are trimmed.  If key is empty, then value is set to "" and
// false is returned."
inline bool parseline(const std::string& line, std::string& key, std::string& value, char equals, char comment) {
  key.clear(); value.clear();
  std::string l = line;
  if (comment) { size_t c = l.find(comment); if (c != std::string::npos) l = l.substr(0, c); }
  l = trim(l);
  if (l.empty()) return false;
  size_t n = std::string::npos;
  if (equals) n = l.find(equals);
  else for (size_t i = 0; i < l.size(); ++i) if (isws(l[i])) { n = i; break; }
  std::string k = trim(n == std::string::npos ? l : l.substr(0, n));
  if (k.empty()) return false;
  key = k;
  if (n != std::string::npos) value = trim(l.substr(n + 1));
  return true;
}

// ---- numeric strings (after trimming): ACC value / REJ / UNS (underflow, not decided by the documentation)
enum Acc { ACC, REJ, UNS };
inline std::string lower(std::string s) { for (char& c : s) if (c >= 'A' && c <= 'Z') c = char(c - 'A' + 'a'); return s; }
inline Acc accept_float(const std::string& raw, double& out) {
  std::string t = trim(raw);
  {   // "If T is a floating point type, then inf and nan are recognized"
    std::string lo = lower(t), core = lo; bool neg = false;
    if (!core.empty() && (core[0] == '+' || core[0] == '-')) { neg = core[0] == '-'; core = core.substr(1); }
    if (core == "nan") { out = std::nan(""); return ACC; }
    if (core == "inf" || core == "infinity") { out = neg ? -INFINITY : INFINITY; return ACC; }
  }
  size_t p = 0, n = t.size(), md = 0;
  if (p < n && (t[p] == '+' || t[p] == '-')) ++p;
  while (p < n && t[p] >= '0' && t[p] <= '9') { ++p; ++md; }
  if (p < n && t[p] == '.') { ++p; while (p < n && t[p] >= '0' && t[p] <= '9') { ++p; ++md; } }
  if (md == 0) return REJ;
  if (p < n && (t[p] == 'e' || t[p] == 'E')) {
    ++p; if (p < n && (t[p] == '+' || t[p] == '-')) ++p;
    size_t ed = 0; while (p < n && t[p] >= '0' && t[p] <= '9') { ++p; ++ed; }
    if (ed == 0) return REJ;
  }
  if (p != n) return REJ;
  errno = 0;
  double v = std::strtod(t.c_str(), nullptr);
  if (std::isinf(v)) return REJ;                       // not representable: "not readable as a T"
  if (errno == ERANGE) return UNS;                     // underflow
  out = v; return ACC;
}
inline Acc accept_int(const std::string& raw, int& out) {
  std::string t = trim(raw);
  size_t p = 0, n = t.size(), d = 0;
  if (p < n && (t[p] == '+' || t[p] == '-')) ++p;
  while (p < n && t[p] >= '0' && t[p] <= '9') { ++p; ++d; }
  if (d == 0 || p != n) return REJ;
  { size_t q = (t[0] == '+' || t[0] == '-') ? 1 : 0, sig = d; while (sig > 1 && t[q] == '0') { ++q; --sig; } if (sig > 18) return REJ; }   // leading zeros do not count
  long long v = std::strtoll(t.c_str(), nullptr, 10);
  if (v < INT_MIN || v > INT_MAX) return REJ;
  out = (int)v; return ACC;
}

}  // namespace c10ref
