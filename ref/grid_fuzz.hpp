// Shared body of the grid-code libFuzzer targets (fuzz/geohash, gars, georef, osgb): bytes -> Reverse.
// Oracle: only GeographicErr may escape; the string is accepted iff the reference acceptor (ref/grid.hpp)
// accepts it; an accepted code decodes to a point inside the reference cell with the reference precision
// and Forward of that point reproduces the canonical (upper-cased; Geohash: lower-cased, first 18
// characters) code; a rejected string leaves the outputs untouched; INVALID markers decode to NaN.
#pragma once
#include <cmath>
#include <string>
#include <GeographicLib/GARS.hpp>
#include <GeographicLib/Geohash.hpp>
#include <GeographicLib/Georef.hpp>
#include <GeographicLib/OSGB.hpp>
#include "fw/fuzz.hpp"
#include "ref/grid.hpp"

namespace gridfz {
using namespace GeographicLib;

inline void rev(int sch, const std::string& code, double& u, double& w, int& prec, bool centerp) {
  switch (sch) {
    case grid::GEOHASH: Geohash::Reverse(code, w, u, prec, centerp); break;
    case grid::GARS: GARS::Reverse(code, w, u, prec, centerp); break;
    case grid::GEOREF: Georef::Reverse(code, w, u, prec, centerp); break;
    default: OSGB::GridReference(code, u, w, prec, centerp); break;
  }
}
inline void fwd(int sch, double u, double w, int prec, std::string& code) {
  switch (sch) {
    case grid::GEOHASH: Geohash::Forward(w, u, prec, code); break;
    case grid::GARS: GARS::Forward(w, u, prec, code); break;
    case grid::GEOREF: Georef::Forward(w, u, prec, code); break;
    default: OSGB::GridReference(u, w, prec, code); break;
  }
}

inline int one(int sch, const uint8_t* data, size_t size) {
  std::string s((const char*)data, size);
  std::string repr = std::string(grid::scheme_name(sch)) + " " + vf::fz_show(s);
  const double SU = -7.25, SW = -3.5; const int SP = -77;
  double u = SU, w = SW; int prec = SP; bool thrown = false;
  bool centerp = !(size > 0 && (data[size - 1] & 0x80));   // mostly centre; high-bit last byte (always invalid) irrelevant
  try { rev(sch, s, u, w, prec, centerp); }
  catch (const GeographicErr&) { thrown = true; }
  catch (const std::exception& e) { vf::fz_fail(std::string("exception of another type: ") + e.what(), repr); }
  grid::Cell c; grid::Status st = grid::decode(sch, s, c);
  const char* cls = st == grid::VALID ? "valid" : st == grid::MARKER ? "marker" : st == grid::INVALID ? "invalid" : "whitespace-unjudged";
  vf::fz_case(data, size, size >= 2, cls, repr);
  if (thrown) {
    if (st == grid::VALID || st == grid::MARKER) vf::fz_fail("valid code / INVALID marker rejected", repr);
    if (!(u == SU && w == SW && prec == SP)) vf::fz_fail("outputs modified by a failing Reverse", repr);
    return 0;
  }
  if (st == grid::INVALID) vf::fz_fail("string is not a valid code but was accepted, precision " + std::to_string(prec), repr);
  if (st == grid::MARKER) {
    if (!(std::isnan(u) && std::isnan(w))) vf::fz_fail("INVALID marker did not decode to NaN", repr);
    if (prec != (sch == grid::OSGB ? -2 : SP)) vf::fz_fail("INVALID marker: precision output " + std::to_string(prec), repr);
    return 0;
  }
  std::string canon;
  if (st == grid::UNJUDGED) {          // OSGB string with white space (skipped by the library, undocumented): intrinsic oracle only
    std::string t; for (char ch : s) if (!grid::is_space(ch)) t += ch;
    canon = grid::upper(t);
    if (std::isnan(u) || std::isnan(w)) return 0;
  } else {
    canon = grid::canon(sch, s);
    if (prec != c.prec) vf::fz_fail("precision " + std::to_string(prec) + " differs from the reference", repr);
    if (!(std::isfinite(u) && std::isfinite(w))) vf::fz_fail("non-finite result for a valid code", repr);
    grid::Q eu = grid::exact(u), ew = grid::exact(w);
    // SW corner: within the C18.d tolerance of the exact corner (2^-43 deg; 4e-9 m for OSGB)
    grid::Q tol = sch == grid::OSGB ? grid::Q(4, 1000000000) : grid::exact(0x1p-43);
    grid::Q du = eu - c.w, dw = ew - c.s; if (du < 0) du = -du; if (dw < 0) dw = -dw;
    bool in = centerp ? (c.w < eu && eu < c.e && c.s < ew && ew < c.n) : (du <= tol && dw <= tol);
    if (!in) vf::fz_fail(centerp ? "decoded centre is not inside the reference cell" : "decoded SW corner differs from the reference corner", repr);
  }
  if (centerp) {
    std::string back;
    try { fwd(sch, u, w, prec, back); }
    catch (const GeographicErr& e) { vf::fz_fail(std::string("Forward(Reverse(s)) threw: ") + e.what(), repr); }
    if (back != canon) vf::fz_fail("Forward(Reverse(s)) = " + vf::fz_show(back) + " differs from the canonical code " + vf::fz_show(canon), repr);
  }
  return 0;
}
}  // namespace gridfz
