// Self-validation of R-SH (not part of any check; build by hand):
//   g++ -std=gnu++17 -O2 -I/verif ref/sh_selftest.cpp ref/sh_ref.cpp -o /tmp/sh_selftest && /tmp/sh_selftest
// Prints: orthonormality defect (both normalisations), closed-form low-degree harmonics, Laplace residual
// and central-difference consistency on pseudo-random coefficient sets.
#include <cmath>
#include <cstdint>
#include <cstdio>
#include <vector>
#include "ref/sh_ref.hpp"

using namespace ref::sh;
typedef long double L;

static uint64_t s_ = 12345;
static double rnd() { s_ += 0x9e3779b97f4a7c15ULL; uint64_t z = s_; z = (z ^ (z >> 30)) * 0xbf58476d1ce4e5b9ULL; z = (z ^ (z >> 27)) * 0x94d049bb133111ebULL; z ^= z >> 31; return (double)(z >> 11) / 9007199254740992.0 * 2 - 1; }

int main() {
  std::printf("orthonormality defect FULL    N=60          : %.3Lg\n", orthonormality_defect(FULL, 60, 1));
  std::printf("orthonormality defect SCHMIDT N=60          : %.3Lg\n", orthonormality_defect(SCHMIDT, 60, 1));
  std::printf("orthonormality defect FULL    N=360 (m%%45=0): %.3Lg\n", orthonormality_defect(FULL, 360, 45));
  std::printf("orthonormality defect SCHMIDT N=360 (m%%45=0): %.3Lg\n", orthonormality_defect(SCHMIDT, 360, 45));

  // closed forms, degree <= 3
  L worst = 0;
  for (int it = 0; it < 200; ++it) {
    double x = rnd() * 3, y = rnd() * 3, z = rnd() * 3, a = 1.5;
    L r = sqrtl((L)x * x + (L)y * y + (L)z * z), t = z / r, u = sqrtl((L)x * x + (L)y * y) / r, lam = atan2l(y, x), q = a / r;
    struct Tm { int n, m; L full, schm; } tm[] = {
      {0, 0, 1, 1}, {1, 0, sqrtl(3) * t, t}, {1, 1, sqrtl(3) * u, u},
      {2, 0, sqrtl(5) * (3 * t * t - 1) / 2, (3 * t * t - 1) / 2}, {2, 1, sqrtl(15) * t * u, sqrtl(3) * t * u},
      {2, 2, sqrtl(15) / 2 * u * u, sqrtl(3) / 2 * u * u},
      {3, 0, sqrtl(7) * (5 * t * t * t - 3 * t) / 2, (5 * t * t * t - 3 * t) / 2},
      {3, 1, sqrtl(42) / 4 * u * (5 * t * t - 1), sqrtl(6) / 4 * u * (5 * t * t - 1)},
      {3, 2, sqrtl(105) / 2 * u * u * t, sqrtl(15) / 2 * u * u * t},
      {3, 3, sqrtl(70) / 4 * u * u * u, sqrtl(10) / 4 * u * u * u}};
    for (auto& k : tm)
      for (int cs = 0; cs < (k.m ? 2 : 1); ++cs)
        for (int nrm = 0; nrm < 2; ++nrm) {
          int N = 3; std::vector<double> C(10, 0.0), S(6, 0.0);
          int idx = k.m * N - k.m * (k.m - 1) / 2 + k.n;
          if (cs == 0) C[(size_t)idx] = 1; else S[(size_t)(idx - (N + 1))] = 1;
          Comp c; c.C = &C; c.S = &S; c.N = N; c.nmx = N; c.mmx = N;
          Out o = eval((Norm)nrm, {c}, N, N, a, x, y, z, false);
          L expect = powl(q, k.n + 1) * (nrm == 0 ? k.full : k.schm) * (cs == 0 ? cosl(k.m * lam) : sinl(k.m * lam));
          worst = std::max(worst, fabsl(o.V - expect));
        }
  }
  std::printf("closed-form harmonics n<=3 (2 norms, cos/sin) : max abs diff %.3Lg (long double round-off expected)\n", worst);

  // analytic gradient vs 50-digit central differences, Laplace residual, Euler identity
  L wg = 0, wl = 0, we = 0;
  // (a) every single term n <= 10, cos and sin, both normalisations, at generic points
  for (int n = 0; n <= 10; ++n) for (int m = 0; m <= n; ++m) for (int cs = 0; cs < (m ? 2 : 1); ++cs) for (int nrm = 0; nrm < 2; ++nrm) {
    int N = 10; std::vector<double> C((size_t)(N + 1) * (N + 2) / 2, 0.0), S((size_t)N * (N + 1) / 2, 0.0);
    int idx = m * N - m * (m - 1) / 2 + n;
    if (cs == 0) C[(size_t)idx] = 1; else S[(size_t)(idx - (N + 1))] = 1;
    Comp c; c.C = &C; c.S = &S; c.N = N; c.nmx = N; c.mmx = N;
    double x = 0.3 + 0.5 * rnd(), y = -0.8 + 0.4 * rnd(), z = 0.9 * rnd();
    L ge, lp; cd_check((Norm)nrm, {c}, N, N, 1.3, x, y, z, ge, lp);
    wg = std::max(wg, ge); wl = std::max(wl, lp);
    Out o = eval((Norm)nrm, {c}, N, N, 1.3, x, y, z, true); we = std::max(we, o.lap);
  }
  std::printf("single terms n<=10: analytic gradient vs central difference %.3Lg (of Sg), Laplace residual %.3Lg, Euler residual %.3Lg\n", wg, wl, we);
  wg = wl = we = 0;
  for (int it = 0; it < 24; ++it) {
    int N = it < 20 ? 5 + 3 * it : 360;
    std::vector<double> C((size_t)(N + 1) * (N + 2) / 2), S((size_t)N * (N + 1) / 2);
    for (auto& v : C) v = rnd(); for (auto& v : S) v = rnd();
    double a = 1, rr = it % 2 ? 0.5 : 1.7;
    double x = rnd(), y = rnd(), z = rnd(); double nr = std::sqrt(x * x + y * y + z * z); x *= rr / nr; y *= rr / nr; z *= rr / nr;
    if (std::sqrt(x * x + y * y) < 0.2 * rr) { x += 0.3 * rr; }
    Comp c; c.C = &C; c.S = &S; c.N = N; c.nmx = N; c.mmx = N - (it % 3);
    L ge, lp; cd_check((Norm)(it % 2), {c}, N, c.mmx, a, x, y, z, ge, lp);
    wg = std::max(wg, ge); wl = std::max(wl, lp);
    Out o = eval((Norm)(it % 2), {c}, N, c.mmx, a, x, y, z, true); we = std::max(we, o.lap);
  }
  std::printf("random sets N<=360: analytic gradient vs central difference %.3Lg (of Sg), Laplace residual %.3Lg, Euler residual %.3Lg\n", wg, wl, we);
  // on the axis: gradient of the m = 1 terms from the limit p -> 0 of central differences across the axis
  {
    int N = 6; std::vector<double> C((size_t)(N + 1) * (N + 2) / 2), S((size_t)N * (N + 1) / 2);
    for (auto& v : C) v = rnd(); for (auto& v : S) v = rnd();
    Comp c; c.C = &C; c.S = &S; c.N = N; c.nmx = N; c.mmx = N;
    L ge, lp; cd_check(FULL, {c}, N, N, 1.0, 0.0, 0.0, 1.4, ge, lp);
    std::printf("on the polar axis (N=6): analytic gradient vs central difference %.3Lg (of Sg), Laplace residual %.3Lg\n", ge, lp);
  }
  return 0;
}
