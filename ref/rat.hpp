// R-RAT / R-MP for C16 (DESIGN 1.4): exact rational arithmetic and 50-digit references for the
// angle primitives of Math.hpp and for Accumulator.
//   * toQ(x): the exact rational value of a finite float/double/long double
//   * trig_deg(q): sin, cos of q degrees.  The argument is reduced EXACTLY in rationals to an
//     octant (|u| <= 45 deg), the octant bookkeeping is done on the exact value, and only then a
//     50-digit sin/cos is evaluated.  At u = 0, +-30, +-45 the closed forms 0, 1, 1/2, sqrt(3)/2,
//     sqrt(1/2) are used, so the reference is exact at the cardinal points.
//   * ulp_err<T>(got, ref): |got - ref| in units of the spacing of T at |ref| (subnormal spacing
//     included: ulp = max(2^(e-p+1), denorm_min)).
//   * atan2_deg, eatanhe_ref, taupf_ref: textbook closed forms in 50 digits.
// Nothing here uses remainder/remquo, a two-sum or any formula of Math.cpp.
// Including this header costs 10-20 s of compile time: only props/C16.cpp includes it.
#pragma once
#include <boost/multiprecision/cpp_bin_float.hpp>
#include <boost/multiprecision/cpp_int.hpp>

#include <cmath>
#include <limits>

namespace ref {

namespace mp = boost::multiprecision;
typedef mp::cpp_int Z;
typedef mp::cpp_rational Q;
typedef mp::cpp_bin_float_50 M;

inline const M& pi50() {
  static const M p("3.14159265358979323846264338327950288419716939937510582097494459230781640628620899");
  return p;
}

// exact value of a finite binary floating-point number (float, double, x87 long double)
template <class T> inline Q toQ(T x) {
  if (x == 0) return Q(0);
  int e;
  long double m = frexpl((long double)x, &e);        // |m| in [0.5,1), conversion to long double is exact
  long double sm = ldexpl(fabsl(m), 64);             // integer < 2^64
  unsigned long long mant = (unsigned long long)sm;
  e -= 64;
  while ((mant & 1ULL) == 0) { mant >>= 1; ++e; }
  Z n = mant;
  Q q = e >= 0 ? Q(Z(n << (unsigned)e)) : Q(n, Z(Z(1) << (unsigned)(-e)));
  return m < 0 ? Q(-q) : q;
}

// 50-digit value of a finite T (exact: 64 bits fit into 168)
template <class T> inline M toM(T x) {
  if (x == 0) return M(0);
  int e;
  long double m = frexpl((long double)x, &e);
  long double sm = ldexpl(fabsl(m), 64);
  unsigned long long mant = (unsigned long long)sm;
  M r = mp::ldexp(M(mant), e - 64);
  return m < 0 ? M(-r) : r;
}

inline M QtoM(const Q& q) { return M(mp::numerator(q)) / M(mp::denominator(q)); }

inline Z floorQ(const Q& q) {
  Z n = mp::numerator(q), d = mp::denominator(q);   // d > 0
  Z t = n / d;                                        // truncates toward zero
  if (n < 0 && t * d != n) t -= 1;
  return t;
}
inline bool is_integer(const Q& q) { return mp::denominator(q) == 1; }
inline Q absQ(const Q& q) { return q < 0 ? Q(-q) : q; }

// spacing of T at |ref| (ref need not be representable)
template <class T> inline M ulp_at(const M& ref) {
  typedef std::numeric_limits<T> NL;
  int e = NL::min_exponent - 1;
  if (ref != 0) {
    int ex; M f = mp::frexp(ref, &ex); (void)f;       // |ref| = f 2^ex, f in [0.5,1)
    e = std::max(ex - 1, NL::min_exponent - 1);
  }
  return mp::ldexp(M(1), e - (NL::digits - 1));
}
template <class T> inline long double ulp_err(T got, const M& ref) {
  if (!std::isfinite(got)) return 1e30L;   // finite, so that err/tol ratios stay finite in the evidence
  M d = mp::abs(toM(got) - ref) / ulp_at<T>(ref);
  return d.convert_to<long double>();
}

// ------------------------------------------------------------------------------------------------
struct TrigRef {
  M s, c;          // sin, cos of the exact argument
  bool szero;      // argument is an exact multiple of 180 (sin is exactly 0)
  bool czero;      // argument is an odd multiple of 90 (cos is exactly 0)
  bool special;    // argument is a multiple of 30 or 45: s and c are closed forms
  int octant;      // 0..4 (which of the five reduction branches), for class histograms
  Q r;             // argument mod 360 in [0,360)
};

inline void base_sc(const Q& u, M& s, M& c, bool& special) {   // |u| <= 45
  Q a = absQ(u);
  special = true;
  if (a == 0) { s = 0; c = 1; }
  else if (a == 30) { s = M(1) / 2; c = mp::sqrt(M(3)) / 2; }
  else if (a == 45) { s = mp::sqrt(M(1) / 2); c = s; }
  else {
    special = false;
    M ur = QtoM(a) * pi50() / 180;
    s = mp::sin(ur); c = mp::cos(ur);
  }
  if (u < 0) s = -s;
}

inline TrigRef trig_deg(const Q& q) {
  TrigRef R;
  R.r = q - Q(360) * Q(floorQ(q / 360));              // in [0,360)
  const Q& r = R.r;
  M s, c; Q u;
  if (r <= 45)       { R.octant = 0; u = r;       base_sc(u, s, c, R.special); R.s = s;  R.c = c; }
  else if (r <= 135) { R.octant = 1; u = r - 90;  base_sc(u, s, c, R.special); R.s = c;  R.c = -s; }
  else if (r <= 225) { R.octant = 2; u = r - 180; base_sc(u, s, c, R.special); R.s = -s; R.c = -c; }
  else if (r <= 315) { R.octant = 3; u = r - 270; base_sc(u, s, c, R.special); R.s = -c; R.c = s; }
  else               { R.octant = 4; u = r - 360; base_sc(u, s, c, R.special); R.s = s;  R.c = c; }
  R.szero = (r == 0 || r == 180);
  R.czero = (r == 90 || r == 270);
  if (R.szero) R.s = 0;                                // remove the sign of zero produced by negation
  if (R.czero) R.c = 0;
  return R;
}

// atan2(y, x) in degrees for finite y, x not both zero, composed from atan of a ratio in [0,1]
inline M atan2_deg(const M& y, const M& x) {
  M ay = mp::abs(y), ax = mp::abs(x), a;
  if (ay <= ax) a = mp::atan(ay / ax) * 180 / pi50();            // [0,45]
  else a = 90 - mp::atan(ax / ay) * 180 / pi50();                // (45,90]
  if (x < 0) a = 180 - a;
  if (y < 0) a = -a;
  return a;
}

// atanh for |y| < 1 without cancellation
inline M atanh50(const M& y) {
  if (mp::abs(y) < M("1e-9")) { M y2 = y * y; return y * (1 + y2 * (M(1) / 3 + y2 * (M(1) / 5 + y2 / 7))); }
  return mp::log((1 + y) / (1 - y)) / 2;
}
// e atanh(e x), e = sqrt(e^2) real or imaginary; es = sign(e^2) sqrt|e^2|
inline M eatanhe_ref(const M& x, const M& es) {
  if (es > 0) return es * atanh50(es * x);
  if (es < 0) { M k = -es; return -k * mp::atan(k * x); }
  return M(0);
}
// tan(chi) from tau = tan(phi): exp(psi) = (tau + sqrt(1+tau^2)) exp(-e atanh(e sin phi)),
// tan(chi) = sinh(psi) (Snyder 3-1 / isometric latitude); odd in tau.
inline M taupf_ref(const M& tau, const M& es) {
  if (tau == 0) return M(0);
  M t = mp::abs(tau), t1 = mp::sqrt(1 + t * t), sphi = t / t1;
  M eta = eatanhe_ref(sphi, es), as, r;
  if (t < M("1e-9")) {   // asinh by series (next term below 1e-70 relative)
    M t2 = t * t;
    as = t * (1 - t2 * (M(1) / 6 - t2 * (M(3) / 40 - t2 * M(15) / 336)));
  } else as = mp::log(t + t1);
  M psi = as - eta;
  if (mp::abs(psi) < M("1e-6")) {   // sinh by series (next term below 1e-60 relative)
    M p2 = psi * psi;
    r = psi * (1 + p2 * (M(1) / 6 + p2 * (M(1) / 120 + p2 * (M(1) / 5040 + p2 / 362880))));
  } else {
    M E = mp::exp(psi);
    r = (E - 1 / E) / 2;
  }
  return tau < 0 ? M(-r) : r;
}

}  // namespace ref
