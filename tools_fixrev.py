#!/usr/bin/env python3
"""Sensitivity test + regression-record harvest from the reverse patches of the "fix:" commits.

  tools_fixrev.py run [Fnn ...]     for every seeded/fix-reverts/Fnn-<hash>.diff (default: all not yet recorded):
                                    copy /repo/{src,include,tools} to a scratch tree, apply the reverse patch (the defect
                                    is back), run the quick check of the property named in the matching "fixed:" record
                                    (known_findings.json) against it via VERIF_REPO, record in seeded/fix-reverts/results.json
                                    whether and by which sub-check it was caught, and keep up to 2 shrunk failing records
                                    per sub-check as regress/<prop>/Fnn-*.json after verifying that they PASS on /repo itself.
  tools_fixrev.py table             markdown table for DESIGN.md

Scratch trees live under /tmp/sw and are removed afterwards; evidence files are restored after each run.
"""
import glob, json, os, re, shutil, subprocess, sys, time
VERIF = os.path.dirname(os.path.abspath(__file__))
SW = "/tmp/sw"
RES = os.path.join(VERIF, "seeded", "fix-reverts", "results.json")


def load_results():
    return json.load(open(RES)) if os.path.exists(RES) else {}


def prop_of(h):
    k = json.load(open(os.path.join(VERIF, "known_findings.json")))
    props = []
    for line in k["fixed"]:
        m = re.match(r"fixed: property=(C\d\d) (\w+) (.*)", line)
        if m and (m.group(2).startswith(h) or h.startswith(m.group(2))):
            props.append((m.group(1), m.group(3)))
    return props


def run_one(path, res):
    name = os.path.basename(path)[:-5]
    fid, h = name.split("-", 1)
    props = prop_of(h)
    if not props:
        print(name, "no fixed: record"); return
    sc = os.path.join(SW, "fr-" + name)
    shutil.rmtree(sc, ignore_errors=True); os.makedirs(sc)
    for sub in ("src", "include", "tools"):
        shutil.copytree(os.path.join("/repo", sub), os.path.join(sc, sub))
    r = subprocess.run("cd %s && patch -p1 -s < %s" % (sc, path), shell=True, capture_output=True, text=True)
    if r.returncode:
        res[name] = dict(applies=False, note=(r.stdout + r.stderr)[-300:]); print(name, "reverse patch does not apply any more"); shutil.rmtree(sc); return
    out = dict(applies=True, what=props[0][1][:200], runs={})
    for prop in sorted({p for p, _ in props}):
        import fcntl
        os.makedirs(os.path.join(VERIF, "build"), exist_ok=True)
        lk = open(os.path.join(VERIF, "build", "lock-" + prop), "w"); fcntl.flock(lk, fcntl.LOCK_EX)
        evf = os.path.join(VERIF, "evidence", prop + ".json")
        evb = open(evf).read() if os.path.exists(evf) else None
        rdir = os.path.join(VERIF, "replays", prop)
        keep = rdir + ".keep-%d" % os.getpid()      # replay files of a run against /repo itself are not ours to delete
        if os.path.isdir(rdir):
            os.rename(rdir, keep)
        t0 = time.time()
        env = dict(os.environ, VERIF_REPO=sc, VERIF_JOBS=os.environ.get("VERIF_JOBS", "8"), VF_LOCK_HELD="1")
        e = subprocess.run([sys.executable, os.path.join(VERIF, "check.py"), prop, "--tier", "quick"], env=env, capture_output=True, text=True)
        viol = [l for l in e.stdout.splitlines() if l.startswith("VIOLATION")]
        subs = sorted({l.split("violation ")[1].split(":")[0] for l in e.stderr.splitlines() if l.strip().startswith("violation ")})
        out["runs"][prop] = dict(exit=e.returncode, caught=e.returncode == 1 and bool(viol), by=subs, wall_s=round(time.time() - t0, 1))
        print(name, prop, "caught" if out["runs"][prop]["caught"] else "NOT caught (exit %d)" % e.returncode, subs, "%.0fs" % (time.time() - t0))
        if evb is not None:
            open(evf, "w").write(evb)
        # harvest records: keep those that pass on /repo itself
        kept = 0
        if os.path.isdir(rdir):
            per = {}
            for f in sorted(os.listdir(rdir)):
                if not f.endswith(".json"):
                    continue
                sub = f.rsplit("-", 1)[0]
                if per.get(sub, 0) >= 2:
                    continue
                src = os.path.join(rdir, f)
                chk = subprocess.run([sys.executable, os.path.join(VERIF, "check.py"), prop, "--replay", src], capture_output=True, text=True, env=dict(os.environ, VF_LOCK_HELD="1"))
                if chk.returncode == 0 and "PASS" in chk.stdout:
                    os.makedirs(os.path.join(VERIF, "regress", prop), exist_ok=True)
                    shutil.copy(src, os.path.join(VERIF, "regress", prop, "%s-%s" % (fid, f)))
                    per[sub] = per.get(sub, 0) + 1; kept += 1
            shutil.rmtree(rdir, ignore_errors=True)
        out["runs"][prop]["regress_records"] = kept
        if os.path.isdir(keep):
            shutil.rmtree(rdir, ignore_errors=True); os.rename(keep, rdir)
        lk.close()
    res[name] = out
    shutil.rmtree(sc, ignore_errors=True)


def main():
    a = sys.argv[1:]
    if a and a[0] == "table":
        res = load_results()
        print("| fix | property | defect re-introduced | caught by | regression records |")
        print("|---|---|---|---|---|")
        def key(n): return int(re.match(r"F(\d+)", n).group(1))
        for n in sorted(res, key=key):
            r = res[n]
            if not r.get("applies"):
                print("| %s | - | reverse patch no longer applies (code rewritten by a later fix) | - | - |" % n); continue
            for p, v in r["runs"].items():
                print("| %s | %s | %s | %s | %d |" % (n, p, r["what"].replace("|", "/")[:140], ", ".join(v["by"]) if v["caught"] else "**missed**", v.get("regress_records", 0)))
        return
    res = load_results()
    want = a[1:] if a and a[0] == "run" else []
    def key(p): return int(re.match(r"F(\d+)", os.path.basename(p)).group(1))
    for path in sorted(glob.glob(os.path.join(VERIF, "seeded", "fix-reverts", "F*.diff")), key=key):
        name = os.path.basename(path)[:-5]
        if want and name.split("-")[0] not in want:
            continue
        if not want and name in load_results():
            continue
        one = {}
        run_one(path, one)
        res = load_results(); res.update(one)      # another instance may have written meanwhile
        json.dump(res, open(RES, "w"), indent=1)


if __name__ == "__main__":
    main()
