// Property harness: sub-checks = { generator of a case record (all randomness through
// rapidcheck), pure deterministic check(record) -> Verdict }.  One binary per property.
//   <bin> list
//   <bin> run --seed S --shard K --cases N --out FILE [--only SUB[,SUB]] [--known F1,F2]
//   <bin> replay FILE          (exit 0 pass, 1 fail, 2 skip/inconclusive, 3 known finding)
// A check must be *total and sound* on every record a generator (or the post-shrink
// simplifier) can produce: inputs outside the documented domain give SKIP, never FAIL.
#pragma once
#include <rapidcheck.h>

#include <algorithm>
#include <chrono>
#include <cmath>
#include <cstdint>
#include <cstdio>
#include <cstdlib>
#include <cstring>
#include <functional>
#include <limits>
#include <map>
#include <set>
#include <string>
#include <unordered_set>
#include <vector>

#include <fcntl.h>
#include <sys/mman.h>
#include <unistd.h>

#include "json.hpp"

namespace vf {

// ------------------------------------------------------------------ verdict
struct Verdict {
  enum St { PASS, FAIL, SKIP, KNOWN } st = PASS;
  bool nontrivial = true;
  std::string cls;        // class label(s) for the histogram, ';' separated
  std::string msg;        // first failing relation
  double ratio = 0;       // max err/tol over the relations evaluated
  std::string worst;      // name of relation with max ratio
  std::string known_id;   // for KNOWN

  // relation helpers --------------------------------------------------
  // err <= tol (NaN err fails).  Keeps the first failure, tracks the worst ratio.
  void le(long double err, long double tol, const char* what) {
    double r = tol > 0 ? (double)(err / tol) : (err == 0 ? 0.0 : std::numeric_limits<double>::infinity());
    if (!(r <= ratio)) { ratio = r; worst = what; }
    if (!(err <= tol) && st == PASS) {
      st = FAIL;
      char b[256]; std::snprintf(b, sizeof b, "%s: err=%.6Lg tol=%.6Lg", what, err, tol);
      msg = b;
    }
  }
  void that(bool cond, const std::string& what) {
    if (!cond && st == PASS) { st = FAIL; msg = what; }
  }
  void skip(const std::string& why) { if (st == PASS) { st = SKIP; msg = why; } }
  void known(const std::string& id, const std::string& why) {
    if (st == PASS || st == FAIL) { st = KNOWN; known_id = id; msg = why; }
  }
  void tag(const std::string& c) { if (!cls.empty()) cls += ';'; cls += c; }
  bool failed() const { return st == FAIL; }
};

struct Sub {
  std::string id;
  std::string rule;      // generation + non-triviality rule (goes to evidence)
  double weight;         // share of the case budget
  std::function<rc::Gen<J>()> gen;          // rapidcheck generator (may be empty if enumerate is set)
  std::function<Verdict(const J&)> check;
  // optional complete/stratified enumeration: calls ctx.emit(rec) for every case of this shard
  std::function<void(struct EnumCtx&)> enumerate;
};
struct EnumCtx {
  int shard = 0, nshards = 1; bool thorough = false; uint64_t seed = 1;
  bool exhaustive = false;                  // set by the enumerator when the space was covered completely
  std::function<bool(const J&)> emit;       // returns false when enumeration should stop (failure found)
};
inline std::vector<Sub>& subs() { static std::vector<Sub> s; return s; }
struct Reg { Reg(Sub s) { subs().push_back(std::move(s)); } };

// known findings enabled for this run (ids from known_findings.json, passed by check.py)
inline std::set<std::string>& known_enabled() { static std::set<std::string> s; return s; }
inline bool known_on(const std::string& id) { return known_enabled().count(id) > 0; }

// ------------------------------------------------------------------ generator helpers
// All must be called inside rc::gen::exec / a property (they use *gen).
namespace g {
inline long long irange(long long lo, long long hi) {   // inclusive, full range at any size
  return *rc::gen::resize(100, rc::gen::inRange<long long>(lo, hi + 1));
}
inline long long sized(long long lo, long long hi) {    // inclusive, grows with size
  return *rc::gen::inRange<long long>(lo, hi + 1);
}
inline bool coin(int num = 1, int den = 2) { return irange(0, den - 1) < num; }
inline double u01() { return double(irange(0, (1LL << 53))) / double(1LL << 53); }
inline double uni(double lo, double hi) { return lo + (hi - lo) * u01(); }
inline double loguni(double lo, double hi) { return std::exp(uni(std::log(lo), std::log(hi))); }
inline double sgn() { return coin() ? 1.0 : -1.0; }
inline double ulps(double x, int k) {
  for (; k > 0; --k) x = std::nextafter(x, std::numeric_limits<double>::infinity());
  for (; k < 0; ++k) x = std::nextafter(x, -std::numeric_limits<double>::infinity());
  return x;
}
template <class T> inline T oneof(std::initializer_list<T> l) {
  std::vector<T> v(l); return v[(size_t)irange(0, (long long)v.size() - 1)];
}
template <class T> inline const T& oneofv(const std::vector<T>& v) { return v[(size_t)irange(0, (long long)v.size() - 1)]; }
// weighted class index
inline int wpick(std::initializer_list<int> w) {
  long long tot = 0; for (int x : w) tot += x;
  long long r = irange(0, tot - 1); int i = 0;
  for (int x : w) { if (r < x) return i; r -= x; ++i; }
  return i - 1;
}
}  // namespace g

// ------------------------------------------------------------------ runner
struct Stats {
  long long evals = 0, nontriv = 0, skipped = 0, passed = 0;
  std::unordered_set<uint64_t> distinct;
  std::map<std::string, long long> classes, knowns, skips;
  double max_ratio = 0; std::string max_what; J max_rec;
  std::vector<J> samples;
  std::vector<std::pair<double, J>> top;   // calibrate mode: worst ratios
  std::vector<J> skipsamples;
};

// progress file shared with the driver: [u64 counter][u64 len][record json]; lets the driver
// recover the case that crashed or hung the process
struct Cur {
  unsigned char* p = nullptr; size_t size = 1 << 18; uint64_t cnt = 0;
  void open(const std::string& path) {
    int fd = ::open(path.c_str(), O_RDWR | O_CREAT | O_TRUNC, 0644);
    if (fd < 0) return;
    if (ftruncate(fd, (off_t)size) != 0) { ::close(fd); return; }
    void* m = mmap(nullptr, size, PROT_READ | PROT_WRITE, MAP_SHARED, fd, 0);
    ::close(fd);
    if (m != MAP_FAILED) p = (unsigned char*)m;
  }
  void set(const std::string& sub, const J& rec) {
    ++cnt;
    if (!p) return;
    std::string body = "{\"sub\":"; J::esc(body, sub); body += ",\"rec\":"; rec.write(body); body += "}";
    uint64_t len = body.size() <= size - 16 ? body.size() : 0;
    std::memcpy(p + 16, body.data(), (size_t)len);
    std::memcpy(p + 8, &len, 8);
    std::memcpy(p, &cnt, 8);
  }
  void tick() { ++cnt; if (p) std::memcpy(p, &cnt, 8); }
};
inline Cur& cur() { static Cur c; return c; }

inline Verdict safe_check(const Sub& s, const J& rec) {
  try {
    return s.check(rec);
  } catch (const std::exception& e) {
    Verdict v; v.st = Verdict::FAIL; v.msg = std::string("unexpected exception from check: ") + e.what();
    return v;
  }
}

inline bool looks_numeric(const std::string& s) {
  return s.rfind("0x", 0) == 0 || s.rfind("-0x", 0) == 0;
}

// deterministic post-shrink pass: replace doubles by rounder values while the case keeps failing
inline void simplify(const Sub& s, J& rec, int& steps) {
  std::function<void(J&)> walk = [&](J& node) {
    if (node.t == J::OBJ) { for (auto& p : node.o) walk(p.second); return; }
    if (node.t == J::ARR) { for (auto& e : node.a) walk(e); return; }
    if (node.t != J::STR || !looks_numeric(node.s)) return;
    double x = J::parsed(node.s);
    if (!std::isfinite(x) || x == 0) return;
    std::vector<double> cands;
    cands.push_back(0.0);
    cands.push_back(std::trunc(x));
    cands.push_back(std::round(x));
    for (int k = 1; k <= 14; ++k) {
      char b[64]; std::snprintf(b, sizeof b, "%.*g", k, x); cands.push_back(std::strtod(b, nullptr));
    }
    J saved = node;
    for (double c : cands) {
      if (c == x) break;
      if (steps > 3000) break;
      node = J::num(c);
      ++steps;
      cur().set(s.id, rec);
      if (safe_check(s, rec).st == Verdict::FAIL) return;   // keep simpler value
    }
    node = saved;
  };
  for (int round = 0; round < 2; ++round) walk(rec);
}

inline uint64_t mix(uint64_t a, uint64_t b) {
  uint64_t x = a ^ (b + 0x9e3779b97f4a7c15ULL + (a << 6) + (a >> 2));
  x ^= x >> 33; x *= 0xff51afd7ed558ccdULL; x ^= x >> 33; x *= 0xc4ceb9fe1a85ec53ULL; x ^= x >> 33;
  return x;
}

inline bool& calibrate() { static bool c = false; return c; }
struct RunOpts { uint64_t seed = 1; int shard = 0, nshards = 1; long long cases = 100; bool thorough = false; std::string out = "out.json"; };

inline void account(Stats& st, const Verdict& v, const J& rec, long long cases, bool hash_distinct) {
  ++st.evals;
  if (calibrate() && ((v.st == Verdict::PASS && v.ratio > 0.25) || v.st == Verdict::FAIL)) {
    double rr = v.st == Verdict::FAIL && !(v.ratio > 1) ? 1e300 : v.ratio;   // boolean relations have no ratio
    J e = J::obj(); e["ratio"] = J::number(rr); e["rel"] = J::str(v.st == Verdict::FAIL ? v.msg : v.worst); e["msg"] = J::str(v.msg); e["rec"] = rec;
    st.top.emplace_back(rr, e);
    std::sort(st.top.begin(), st.top.end(), [](const std::pair<double, J>& a, const std::pair<double, J>& b) { return a.first > b.first; });
    { static const size_t lim = std::getenv("VF_TOP") ? (size_t)std::atoi(std::getenv("VF_TOP")) : 8; if (st.top.size() > lim) st.top.resize(lim); }
  }
  if (v.st == Verdict::SKIP) {
    ++st.skipped; long long n = ++st.skips[v.msg.substr(0, 60)];
    if (calibrate() && n <= 3) { J e = J::obj(); e["ratio"] = J::number(-1); e["rel"] = J::str("SKIP " + v.msg); e["msg"] = J::str(v.msg); e["rec"] = rec; st.skipsamples.push_back(e); }
  }
  if (v.st == Verdict::KNOWN) { ++st.knowns[v.known_id]; }
  if (v.st == Verdict::PASS) {
    ++st.passed;
    if (v.nontrivial) { ++st.nontriv; if (hash_distinct) st.distinct.insert(fnv1a(rec.dump())); }
    if (v.ratio > st.max_ratio && std::isfinite(v.ratio)) { st.max_ratio = v.ratio; st.max_what = v.worst; st.max_rec = rec; }
  }
  if (!v.cls.empty()) {
    size_t p = 0;
    while (p <= v.cls.size()) {
      size_t q = v.cls.find(';', p); if (q == std::string::npos) q = v.cls.size();
      ++st.classes[v.cls.substr(p, q - p)]; p = q + 1;
    }
  }
  // samples: first 2, then a deterministic sparse selection (by case index)
  if (v.st == Verdict::PASS && v.nontrivial &&
      (st.samples.size() < 2 || (st.samples.size() < 6 && st.evals % std::max<long long>(1, cases / 4) == 0)))
    st.samples.push_back(rec);
}

inline J run_sub(const Sub& sub, const RunOpts& o, long long cases) {
  Stats st;
  bool failing = false;
  J lastFail; std::string lastMsg; J firstFail; std::string firstMsg;
  long long shrink_execs = 0;
  auto t0 = std::chrono::steady_clock::now();
  uint64_t rcseed = mix(mix(o.seed, (uint64_t)o.shard), fnv1a(sub.id));
  bool enumerated = false, exhaustive = false;
  long long enum_distinct = 0;

  if (sub.enumerate) {
    enumerated = true;
    EnumCtx ctx; ctx.shard = o.shard; ctx.nshards = o.nshards; ctx.thorough = o.thorough; ctx.seed = o.seed;
    ctx.emit = [&](const J& rec) -> bool {
      if ((st.evals & 0x3ff) == 0) cur().set(sub.id, rec); else cur().tick();
      Verdict v = safe_check(sub, rec);
      if (v.st == Verdict::FAIL) cur().set(sub.id, rec);
      account(st, v, rec, 1000000, false);
      if (calibrate() && v.st == Verdict::FAIL) return true;
      if (v.st == Verdict::PASS && v.nontrivial) ++enum_distinct;   // enumerations never repeat a case
      if (v.st == Verdict::FAIL) { failing = true; firstFail = lastFail = rec; firstMsg = lastMsg = v.msg; return false; }
      return true;
    };
    sub.enumerate(ctx);
    exhaustive = ctx.exhaustive && !failing;
  }
  if (sub.gen && !failing) {
    // The budget is spent in chunks of at most 20000 cases, each its own rapidcheck run with a seed derived from
    // (seed, shard, sub-check, chunk): memory held by a run is released between chunks (a single run of 10^6 cases
    // grew to 9 GB per shard under ASan in the thorough tier of C10), and every chunk sweeps the sizes 0..100.
    rc::detail::TestMetadata meta; meta.id = sub.id; meta.description = sub.id;
    auto gen = sub.gen();
    const long long CH = 20000;
    long long left = std::max<long long>(1, cases);
    for (uint64_t chunk = 0; left > 0 && !failing; ++chunk) {
      long long n = std::min(left, CH); left -= n;
      rc::detail::TestParams params;
      params.seed = chunk == 0 ? rcseed : mix(rcseed, chunk);
      params.maxSuccess = (int)n;
      params.maxSize = 100;
      params.maxDiscardRatio = 10;
      auto result = rc::detail::checkTestable(
          [&] {
            J rec = *gen;
            cur().set(sub.id, rec);
            Verdict v = safe_check(sub, rec);
            if (!failing) account(st, v, rec, cases, true); else ++shrink_execs;
            if (calibrate() && v.st == Verdict::FAIL) return;
            if (v.st == Verdict::FAIL) {
              if (!failing) { firstFail = rec; firstMsg = v.msg; }
              failing = true; lastFail = rec; lastMsg = v.msg;
              RC_FAIL(v.msg);
            }
          },
          meta, params);
      (void)result;
    }
  }

  J out = J::obj();
  out["sub"] = J::str(sub.id);
  out["rule"] = J::str(sub.rule);
  out["evaluations"] = J::integer(st.evals);
  out["passed"] = J::integer(st.passed);
  out["nontrivial"] = J::integer(st.nontriv);
  out["distinct_nontrivial"] = J::integer((long long)st.distinct.size() + enum_distinct);
  if (enumerated) { out["enum_distinct"] = J::integer(enum_distinct); out["exhaustive"] = J::boolean(exhaustive && !sub.gen); }
  out["skipped"] = J::integer(st.skipped);
  J sk = J::obj(); for (auto& p : st.skips) sk[p.first] = J::integer(p.second); out["skip_reasons"] = sk;
  J kn = J::obj(); for (auto& p : st.knowns) kn[p.first] = J::integer(p.second); out["known"] = kn;
  J cl = J::obj(); for (auto& p : st.classes) cl[p.first] = J::integer(p.second); out["classes"] = cl;
  out["max_ratio"] = J::number(st.max_ratio);
  out["max_ratio_rel"] = J::str(st.max_what);
  if (st.max_ratio > 0) out["max_ratio_rec"] = st.max_rec;
  J sm = J::arr(); for (auto& s : st.samples) sm.push(s); out["samples"] = sm;
  out["rc_seed"] = J::str(std::to_string(rcseed));
  if (calibrate()) { J tp = J::arr(); for (auto& t : st.top) tp.push(t.second); out["top"] = tp;
    J ss = J::arr(); for (auto& t : st.skipsamples) ss.push(t); out["skipsamples"] = ss; }
  if (failing) {
    // lastFail is the most-shrunk failing record rapidcheck executed; simplify doubles further
    int steps = 0; J simp = lastFail;
    simplify(sub, simp, steps);
    cur().set(sub.id, simp);
    Verdict vs = safe_check(sub, simp);
    J f = J::obj();
    f["sub"] = J::str(sub.id);
    if (vs.st == Verdict::FAIL) { f["rec"] = simp; f["msg"] = J::str(vs.msg); }
    else { f["rec"] = lastFail; f["msg"] = J::str(lastMsg); }
    f["unshrunk_rec"] = firstFail; f["unshrunk_msg"] = J::str(firstMsg);
    f["shrink_execs"] = J::integer(shrink_execs + steps);
    out["failure"] = f;
  }
  out["wall_s"] = J::number(std::chrono::duration<double>(std::chrono::steady_clock::now() - t0).count());
  // distinct hashes for the cross-shard union
  {
    std::string hp = o.out + "." + sub.id + ".h64";
    FILE* f = std::fopen(hp.c_str(), "wb");
    if (f) { for (uint64_t h : st.distinct) std::fwrite(&h, 8, 1, f); std::fclose(f); }
  }
  return out;
}

inline std::set<std::string> split_csv(const std::string& s) {
  std::set<std::string> r; size_t p = 0;
  while (p <= s.size()) { size_t q = s.find(',', p); if (q == std::string::npos) q = s.size(); if (q > p) r.insert(s.substr(p, q - p)); p = q + 1; }
  return r;
}

inline int harness_main(int argc, char** argv) {
  std::setvbuf(stdout, nullptr, _IOLBF, 0);
  if (argc < 2) { std::fprintf(stderr, "usage: list | run ... | replay FILE\n"); return 64; }
  std::string cmd = argv[1];
  if (cmd == "list") {
    J a = J::arr();
    for (auto& s : subs()) { J o = J::obj(); o["sub"] = J::str(s.id); o["rule"] = J::str(s.rule); o["weight"] = J::number(s.weight); a.push(o); }
    std::printf("%s\n", a.dump().c_str()); return 0;
  }
  if (cmd == "run") {
    RunOpts o; std::set<std::string> only;
    for (int i = 2; i + 1 < argc; i += 2) {
      std::string k = argv[i], v = argv[i + 1];
      if (k == "--seed") o.seed = std::strtoull(v.c_str(), nullptr, 10);
      else if (k == "--shard") o.shard = std::atoi(v.c_str());
      else if (k == "--nshards") o.nshards = std::atoi(v.c_str());
      else if (k == "--cases") o.cases = std::atoll(v.c_str());
      else if (k == "--tier") o.thorough = (v == "thorough");
      else if (k == "--out") o.out = v;
      else if (k == "--cur") cur().open(v);
      else if (k == "--only") only = split_csv(v);
      else if (k == "--known") known_enabled() = split_csv(v);
      else if (k == "--calibrate") calibrate() = (v == "1");
    }
    J res = J::obj(); J arr = J::arr();
    for (auto& s : subs()) {
      bool sel = only.empty();
      for (auto& pat : only) if (s.id == pat || s.id.rfind(pat + ".", 0) == 0) sel = true;   // exact id or a dotted prefix
      if (!sel) continue;
      long long n = (long long)std::llround(o.cases * s.weight);
      if (n < 1) n = 1;
      arr.push(run_sub(s, o, n));
    }
    res["shard"] = J::integer(o.shard); res["seed"] = J::integer((long long)o.seed); res["subs"] = arr;
    spit(o.out, res.dump());
    return 0;
  }
  if (cmd == "replay") {
    if (argc < 3) return 64;
    for (int i = 3; i + 1 < argc; i += 2) if (std::string(argv[i]) == "--known") known_enabled() = split_csv(argv[i + 1]);
    J f = J::parse(slurp(argv[2]));
    std::string id = f.gets("sub");
    for (auto& s : subs()) if (s.id == id) {
      Verdict v = safe_check(s, f.at("rec"));
      const char* nm[] = {"PASS", "FAIL", "SKIP", "KNOWN"};
      std::printf("REPLAY %s %s ratio=%.4g %s\n", id.c_str(), nm[v.st], v.ratio, v.msg.c_str());
      return v.st == Verdict::PASS ? 0 : v.st == Verdict::FAIL ? 1 : v.st == Verdict::SKIP ? 2 : 3;
    }
    std::fprintf(stderr, "unknown sub-check %s\n", id.c_str()); return 64;
  }
  return 64;
}

}  // namespace vf

#define VF_MAIN int main(int argc, char** argv) { return vf::harness_main(argc, argv); }
