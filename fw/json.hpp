// Minimal JSON value, writer and parser used for case records, replay files and
// per-shard result files.  Doubles that must survive exactly are stored as
// strings "0x1.8p+5 (48)" (hexfloat + decimal for the reader); see J::num/J::getd.
#pragma once
#include <cmath>
#include <cstdint>
#include <cstdio>
#include <cstdlib>
#include <cstring>
#include <map>
#include <memory>
#include <sstream>
#include <stdexcept>
#include <string>
#include <utility>
#include <vector>

namespace vf {

struct J {
  enum T { NUL, BOOL, NUM, STR, ARR, OBJ } t = NUL;
  bool b = false;
  double n = 0;
  std::string s;
  std::vector<J> a;
  std::vector<std::pair<std::string, J>> o;   // ordered object

  J() {}
  static J null() { return J(); }
  static J boolean(bool v) { J j; j.t = BOOL; j.b = v; return j; }
  static J number(double v) { J j; j.t = NUM; j.n = v; return j; }
  static J integer(long long v) { J j; j.t = NUM; j.n = double(v); return j; }
  static J str(const std::string& v) { J j; j.t = STR; j.s = v; return j; }
  static J arr() { J j; j.t = ARR; return j; }
  static J obj() { J j; j.t = OBJ; return j; }
  // exact double (also long double, stored with %La)
  static J num(double v) {
    char buf[96];
    if (std::isnan(v)) std::snprintf(buf, sizeof buf, "%s", std::signbit(v) ? "-nan" : "nan");
    else if (std::isinf(v)) std::snprintf(buf, sizeof buf, "%s", v < 0 ? "-inf" : "inf");
    else std::snprintf(buf, sizeof buf, "%a (%.17g)", v, v);
    return str(buf);
  }
  static J numl(long double v) {
    char buf[128];
    if (std::isnan(v)) std::snprintf(buf, sizeof buf, "nan");
    else if (std::isinf(v)) std::snprintf(buf, sizeof buf, "%s", v < 0 ? "-inf" : "inf");
    else std::snprintf(buf, sizeof buf, "%La (%.21Lg)", v, v);
    return str(buf);
  }

  bool has(const std::string& k) const {
    for (auto& p : o) if (p.first == k) return true;
    return false;
  }
  J& operator[](const std::string& k) {
    if (t == NUL) t = OBJ;
    for (auto& p : o) if (p.first == k) return p.second;
    o.emplace_back(k, J());
    return o.back().second;
  }
  const J& at(const std::string& k) const {
    for (auto& p : o) if (p.first == k) return p.second;
    throw std::runtime_error("json: missing key " + k);
  }
  void push(const J& v) { if (t == NUL) t = ARR; a.push_back(v); }

  // typed getters for record fields
  double getd(const std::string& k) const {
    const J& v = at(k);
    if (v.t == NUM) return v.n;
    if (v.t == STR) return parsed(v.s);
    throw std::runtime_error("json: field " + k + " is not numeric");
  }
  long double getl(const std::string& k) const {
    const J& v = at(k);
    if (v.t == NUM) return v.n;
    if (v.t == STR) return std::strtold(v.s.c_str(), nullptr);
    throw std::runtime_error("json: field " + k + " is not numeric");
  }
  long long geti(const std::string& k) const {
    const J& v = at(k);
    if (v.t == NUM) return (long long)v.n;
    if (v.t == BOOL) return v.b;
    throw std::runtime_error("json: field " + k + " is not integer");
  }
  const std::string& gets(const std::string& k) const {
    const J& v = at(k);
    if (v.t != STR) throw std::runtime_error("json: field " + k + " is not string");
    return v.s;
  }
  static double parsed(const std::string& s) {
    if (s == "nan") return std::nan("");
    if (s == "-nan") return -std::nan("");
    return std::strtod(s.c_str(), nullptr);
  }
  double asd() const { return t == NUM ? n : parsed(s); }

  // ---- writer
  static void esc(std::string& out, const std::string& s) {
    out += '"';
    for (unsigned char c : s) {
      switch (c) {
        case '"': out += "\\\""; break;
        case '\\': out += "\\\\"; break;
        case '\n': out += "\\n"; break;
        case '\r': out += "\\r"; break;
        case '\t': out += "\\t"; break;
        default:
          if (c < 0x20 || c >= 0x7f) {   // bytes are kept as \u00XX (latin-1 view)
            char b[8]; std::snprintf(b, sizeof b, "\\u%04x", c); out += b;
          } else out += char(c);
      }
    }
    out += '"';
  }
  void write(std::string& out) const {
    switch (t) {
      case NUL: out += "null"; break;
      case BOOL: out += b ? "true" : "false"; break;
      case NUM: {
        char buf[40];
        if (!std::isfinite(n)) { out += "null"; break; }
        if (n == std::floor(n) && std::fabs(n) < 9e15) std::snprintf(buf, sizeof buf, "%lld", (long long)n);
        else std::snprintf(buf, sizeof buf, "%.17g", n);
        out += buf; break;
      }
      case STR: esc(out, s); break;
      case ARR: {
        out += '[';
        for (size_t i = 0; i < a.size(); ++i) { if (i) out += ','; a[i].write(out); }
        out += ']'; break;
      }
      case OBJ: {
        out += '{';
        for (size_t i = 0; i < o.size(); ++i) {
          if (i) out += ',';
          esc(out, o[i].first); out += ':'; o[i].second.write(out);
        }
        out += '}'; break;
      }
    }
  }
  std::string dump() const { std::string r; write(r); return r; }

  // ---- parser
  struct P {
    const char* p; const char* e;
    void ws() { while (p < e && (*p == ' ' || *p == '\n' || *p == '\t' || *p == '\r')) ++p; }
    [[noreturn]] void fail(const char* m) { throw std::runtime_error(std::string("json parse: ") + m); }
    J val() {
      ws();
      if (p >= e) fail("eof");
      char c = *p;
      if (c == '{') {
        ++p; J j = J::obj(); ws();
        if (p < e && *p == '}') { ++p; return j; }
        for (;;) {
          ws(); J k = val(); if (k.t != STR) fail("key");
          ws(); if (p >= e || *p != ':') fail(":"); ++p;
          J v = val(); j.o.emplace_back(k.s, std::move(v));
          ws(); if (p < e && *p == ',') { ++p; continue; }
          if (p < e && *p == '}') { ++p; break; }
          fail("obj");
        }
        return j;
      }
      if (c == '[') {
        ++p; J j = J::arr(); ws();
        if (p < e && *p == ']') { ++p; return j; }
        for (;;) {
          j.a.push_back(val()); ws();
          if (p < e && *p == ',') { ++p; continue; }
          if (p < e && *p == ']') { ++p; break; }
          fail("arr");
        }
        return j;
      }
      if (c == '"') {
        ++p; J j; j.t = STR;
        while (p < e && *p != '"') {
          if (*p == '\\') {
            ++p; if (p >= e) fail("esc");
            switch (*p) {
              case 'n': j.s += '\n'; break; case 't': j.s += '\t'; break;
              case 'r': j.s += '\r'; break; case 'b': j.s += '\b'; break;
              case 'f': j.s += '\f'; break;
              case 'u': {
                if (e - p < 5) fail("u");
                unsigned v = (unsigned)std::strtoul(std::string(p + 1, p + 5).c_str(), nullptr, 16);
                p += 4; j.s += char(v & 0xff);   // latin-1 view of bytes
                break;
              }
              default: j.s += *p;
            }
            ++p;
          } else j.s += *p++;
        }
        if (p >= e) fail("str"); ++p; return j;
      }
      if (!std::strncmp(p, "true", 4)) { p += 4; return J::boolean(true); }
      if (!std::strncmp(p, "false", 5)) { p += 5; return J::boolean(false); }
      if (!std::strncmp(p, "null", 4)) { p += 4; return J(); }
      char* q; double v = std::strtod(p, &q);
      if (q == p) fail("num");
      p = q; return J::number(v);
    }
  };
  static J parse(const std::string& s) { P p{s.data(), s.data() + s.size()}; return p.val(); }
};

inline std::string slurp(const std::string& path) {
  FILE* f = std::fopen(path.c_str(), "rb");
  if (!f) throw std::runtime_error("cannot open " + path);
  std::string r; char buf[1 << 16]; size_t n;
  while ((n = std::fread(buf, 1, sizeof buf, f)) > 0) r.append(buf, n);
  std::fclose(f); return r;
}
inline void spit(const std::string& path, const std::string& data) {
  FILE* f = std::fopen(path.c_str(), "wb");
  if (!f) throw std::runtime_error("cannot write " + path);
  std::fwrite(data.data(), 1, data.size(), f); std::fclose(f);
}
inline uint64_t fnv1a(const std::string& s, uint64_t h = 1469598103934665603ULL) {
  for (unsigned char c : s) { h ^= c; h *= 1099511628211ULL; }
  return h;
}

}  // namespace vf
