// Helpers for libFuzzer targets (flavour "fuzz": ASan+UBSan+coverage).  The semantic oracle
// lives inside the target; a violated oracle calls vf::fz_fail (dumps counters, traps).
//   - one entry function, no state kept between iterations
//   - VF_STATS  (env): where to dump {evaluations, nontrivial, hashes, classes, samples}
//   - VF_TMP    (env): scratch directory for files (never /tmp)
//   - VF_KNOWN  (env): comma list of known-finding ids enabled for this run
#pragma once
#include <cstdint>
#include <cstdio>
#include <cstdlib>
#include <cstring>
#include <map>
#include <new>
#include <set>
#include <string>
#include <unordered_set>
#include <vector>
#include "json.hpp"

namespace vf {

struct FuzzStats {
  long long evals = 0, nontriv = 0;
  std::unordered_set<uint64_t> hashes;
  std::map<std::string, long long> classes, known;
  std::vector<std::string> samples;
  bool registered = false;
};
inline FuzzStats& fz() { static FuzzStats s; return s; }

inline void fz_dump() {
  const char* p = std::getenv("VF_STATS");
  if (!p) return;
  FuzzStats& s = fz();
  J o = J::obj();
  o["evaluations"] = J::integer(s.evals);
  o["nontrivial"] = J::integer(s.nontriv);
  J h = J::arr(); size_t n = 0;
  for (uint64_t x : s.hashes) { if (++n > 300000) break; h.push(J::str(std::to_string(x))); }
  o["hashes"] = h;
  J c = J::obj(); for (auto& kv : s.classes) c[kv.first] = J::integer(kv.second); o["classes"] = c;
  J k = J::obj(); for (auto& kv : s.known) k[kv.first] = J::integer(kv.second); o["known"] = k;
  J sm = J::arr(); for (auto& x : s.samples) sm.push(J::str(x)); o["samples"] = sm;
  try { spit(p, o.dump()); } catch (...) {}
}

// call once per iteration; `nontrivial` by the target's stated rule, `cls` a class label,
// `repr` a printable form of the decoded case (kept for the first few and a sparse selection)
inline void fz_case(const uint8_t* data, size_t size, bool nontrivial, const std::string& cls, const std::string& repr) {
  FuzzStats& s = fz();
  if (!s.registered) { s.registered = true; std::atexit(fz_dump); }
  ++s.evals;
  if (nontrivial) {
    ++s.nontriv;
    if (s.hashes.size() < 2000000) s.hashes.insert(fnv1a(std::string((const char*)data, size)));
  }
  if (!cls.empty()) ++s.classes[cls];
  if (nontrivial && (s.samples.size() < 3 || (s.samples.size() < 8 && s.evals % 5000 == 0))) s.samples.push_back(repr);
}
inline void fz_known(const std::string& id) { ++fz().known[id]; }
inline bool fz_known_on(const std::string& id) {
  const char* k = std::getenv("VF_KNOWN");
  if (!k) return false;
  std::string s = std::string(",") + k + ",";
  return s.find("," + id + ",") != std::string::npos;
}

[[noreturn]] inline void fz_fail(const std::string& what, const std::string& repr) {
  std::fprintf(stderr, "ORACLE-FAIL: %s\n  case: %s\n", what.c_str(), repr.c_str());
  fz_dump();
  __builtin_trap();
}

inline std::string fz_tmpdir() {
  const char* p = std::getenv("VF_TMP");
  return p ? p : ".";
}

// printable form of a byte string
inline std::string fz_show(const std::string& s) { std::string o; J::esc(o, s); return o; }

}  // namespace vf

// Define VF_FUZZ_LIMIT_NEW before including to make huge allocations throw std::bad_alloc (the
// allowed "allocation failure") instead of aborting inside ASan with allocation-size-too-big.
#ifdef VF_FUZZ_LIMIT_NEW
#ifndef VF_FUZZ_NEW_LIMIT_BYTES
#define VF_FUZZ_NEW_LIMIT_BYTES (1ull << 30)
#endif
void* operator new(std::size_t n) {
  if (n > VF_FUZZ_NEW_LIMIT_BYTES) throw std::bad_alloc();
  void* p = std::malloc(n ? n : 1);
  if (!p) throw std::bad_alloc();
  return p;
}
void* operator new[](std::size_t n) { return operator new(n); }
void operator delete(void* p) noexcept { std::free(p); }
void operator delete[](void* p) noexcept { std::free(p); }
void operator delete(void* p, std::size_t) noexcept { std::free(p); }
void operator delete[](void* p, std::size_t) noexcept { std::free(p); }
#endif
