// Run a GeographicLib command-line tool in-process (tools/*.cpp compiled with -Dmain=tool_<Name>_main by
// check.py for units with "tools": true).  Input goes through --input-file under $VF_TMP, output is captured
// by redirecting std::cout's buffer.  Used by the line fuzzers fuzz/tool_*.cpp.
#pragma once
#include <cstdio>
#include <cstdlib>
#include <fstream>
#include <iostream>
#include <sstream>
#include <string>
#include <vector>
#include <unistd.h>

namespace toolrun {
typedef int (*ToolFn)(int, const char* const[]);
struct Out { int rc = -1; std::string text; bool io = true; };

inline Out run(const char* name, ToolFn fn, const std::vector<std::string>& args, const std::string& input) {
  Out o;
  const char* tmp = std::getenv("VF_TMP");
  std::string in = std::string(tmp ? tmp : ".") + "/" + name + "-" + std::to_string((long)getpid()) + ".in";
  { std::ofstream f(in.c_str(), std::ios::binary); f.write(input.data(), (std::streamsize)input.size()); if (!f.good()) { o.io = false; return o; } }
  std::vector<std::string> a; a.push_back(name);
  for (auto& x : args) a.push_back(x);
  a.push_back("--input-file"); a.push_back(in);
  std::vector<const char*> argv; for (auto& x : a) argv.push_back(x.c_str());
  std::ostringstream cap;
  std::streambuf* old = std::cout.rdbuf(cap.rdbuf());
  try { o.rc = fn((int)argv.size(), argv.data()); } catch (...) { std::cout.rdbuf(old); throw; }
  std::cout.rdbuf(old);
  o.text = cap.str();
  return o;
}
// number of lines std::getline delivers for this text
inline size_t input_lines(const std::string& s) {
  size_t n = 0; for (char c : s) if (c == '\n') ++n;
  if (!s.empty() && s.back() != '\n') ++n;
  return n;
}
inline std::vector<std::string> split_lines(const std::string& s, bool& partial) {
  std::vector<std::string> v; partial = false; size_t p = 0;
  while (p < s.size()) { size_t q = s.find('\n', p); if (q == std::string::npos) { v.push_back(s.substr(p)); partial = true; break; } v.push_back(s.substr(p, q - p)); p = q + 1; }
  return v;
}
// the line contract of all line-oriented tools: one output line per input line, "ERROR" lines <=> status != 0
inline std::string line_contract(const std::string& input, const Out& o) {
  bool partial; std::vector<std::string> ol = split_lines(o.text, partial);
  if (partial) return "output does not end with a line break";
  size_t nin = input_lines(input);
  if (ol.size() != nin) return "printed " + std::to_string(ol.size()) + " lines for " + std::to_string(nin) + " input lines";
  bool anyerr = false;
  for (auto& l : ol) { if (l.rfind("ERROR", 0) == 0) anyerr = true; else if (l.empty()) return "empty output line"; }
  if ((o.rc != 0) != anyerr) return "exit status " + std::to_string(o.rc) + (anyerr ? " with" : " without") + " ERROR lines";
  return "";
}
}  // namespace toolrun
