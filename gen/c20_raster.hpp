// gen/c20_raster.hpp - synthetic geoid rasters for C20: deterministic expansion of (kind, seed, w, h) into
// pixels, writer for the documented PGM format with header variants, single-field corruptions for C20.e.
#pragma once
#include <cmath>
#include <cstdint>
#include <cstdio>
#include <cstdlib>
#include <string>
#include <vector>
#include <unistd.h>

#include "fw/harness.hpp"
#include "ref/geoid_ref.hpp"

namespace c20 {

typedef long double L;

struct Rng {
  uint64_t s;
  explicit Rng(uint64_t seed) : s(seed * 0x9e3779b97f4a7c15ULL + 0x1234567ULL) {}
  uint64_t next() { s += 0x9e3779b97f4a7c15ULL; uint64_t z = s; z = (z ^ (z >> 30)) * 0xbf58476d1ce4e5b9ULL; z = (z ^ (z >> 27)) * 0x94d049bb133111ebULL; return z ^ (z >> 31); }
  double u01() { return (double)(next() >> 11) / 9007199254740992.0; }
  int below(int n) { return (int)(next() % (uint64_t)n); }
};

enum Kind { RANDOM = 0, SMOOTH = 1, POLY = 2, EXTREME = 3, NKIND = 4 };

struct Poly { long c[10]; };   // integer cubic in (ix, iy): exponents as in ref::geoid (1,x,y,x2,xy,y2,x3,x2y,xy2,y3)

inline long poly_at(const Poly& p, long x, long y) {
  return p.c[0] + p.c[1] * x + p.c[2] * y + p.c[3] * x * x + p.c[4] * x * y + p.c[5] * y * y + p.c[6] * x * x * x + p.c[7] * x * x * y + p.c[8] * x * y * y + p.c[9] * y * y * y;
}
inline L poly_atl(const Poly& p, L x, L y) {
  return p.c[0] + p.c[1] * x + p.c[2] * y + p.c[3] * x * x + p.c[4] * x * y + p.c[5] * y * y + p.c[6] * x * x * x + p.c[7] * x * x * y + p.c[8] * x * y * y + p.c[9] * y * y * y;
}

// pixels of a raster; for POLY the polynomial actually used is returned (poly_ok = false if none fits the range)
inline void fill(ref::geoid::Raster& r, int kind, uint64_t seed, Poly* poly = nullptr, bool* poly_ok = nullptr) {
  Rng g(seed);
  r.px.assign((size_t)r.w * (size_t)r.h, 0);
  if (poly_ok) *poly_ok = false;
  switch (kind) {
    case RANDOM:
      for (auto& v : r.px) v = (uint16_t)(g.next() & 0xffff);
      break;
    case SMOOTH: {
      // a few low-order waves; the pole rows come out constant like in a real geoid grid
      double A[4], ph[4]; int k[4], j[4];
      for (int i = 0; i < 4; ++i) { A[i] = 4000 * g.u01(); ph[i] = 6.283185307179586 * g.u01(); k[i] = 1 + g.below(4); j[i] = 1 + g.below(3); }
      double base = 20000 + 20000 * g.u01(), tilt = 8000 * (2 * g.u01() - 1);
      for (int iy = 0; iy < r.h; ++iy) {
        double lat = 1.5707963267948966 - 3.141592653589793 * iy / (r.h - 1), cl = iy == 0 || iy == r.h - 1 ? 0.0 : std::cos(lat);
        for (int ix = 0; ix < r.w; ++ix) {
          double lon = 6.283185307179586 * ix / r.w, v = base + tilt * std::sin(lat);
          for (int i = 0; i < 4; ++i) v += A[i] * std::pow(cl, j[i]) * std::sin(k[i] * lon + ph[i]);
          long q = std::lround(v); if (q < 0) q = 0; if (q > 65535) q = 65535;
          r.px[(size_t)iy * (size_t)r.w + (size_t)ix] = (uint16_t)q;
        }
      }
      break;
    }
    case POLY: {
      Poly p;
      for (int t = 0; t < 40; ++t) {
        int mag = t < 20 ? 3 : 1;
        for (int i = 0; i < 10; ++i) p.c[i] = (long)g.below(2 * mag + 1) - mag;
        if (t >= 30) { p.c[6] = p.c[7] = p.c[8] = p.c[9] = 0; }
        for (int i = 3; i < 6; ++i) p.c[i] *= 3;
        p.c[1] *= 40; p.c[2] *= 40; p.c[0] = 0;
        long mn = 0, mx = 0; bool first = true;
        for (int iy = 0; iy < r.h; ++iy) for (int ix = 0; ix < r.w; ++ix) { long v = poly_at(p, ix, iy); if (first || v < mn) mn = v; if (first || v > mx) mx = v; first = false; }
        if (mx - mn > 65535) continue;
        p.c[0] = -mn + (long)g.below((int)(65535 - (mx - mn)) + 1);
        for (int iy = 0; iy < r.h; ++iy) for (int ix = 0; ix < r.w; ++ix) r.px[(size_t)iy * (size_t)r.w + (size_t)ix] = (uint16_t)poly_at(p, ix, iy);
        if (poly) *poly = p;
        if (poly_ok) *poly_ok = true;
        return;
      }
      // fall back to a plane
      for (int i = 0; i < 10; ++i) p.c[i] = 0;
      p.c[0] = 100;
      for (auto& v : r.px) v = 100;
      if (poly) *poly = p;
      if (poly_ok) *poly_ok = true;
      break;
    }
    default: {   // EXTREME
      int mode = g.below(4);
      for (int iy = 0; iy < r.h; ++iy) for (int ix = 0; ix < r.w; ++ix) {
        uint16_t v = mode == 0 ? 0 : mode == 1 ? 65535 : mode == 2 ? (((ix + iy) & 1) ? 65535 : 0) : ((g.next() & 1) ? 65535 : 0);
        r.px[(size_t)iy * (size_t)r.w + (size_t)ix] = v;
      }
    }
  }
}

inline std::string num17(double v) { char b[64]; std::snprintf(b, sizeof b, "%.17g", v); return b; }
inline std::string tmpdir() { const char* p = std::getenv("VF_TMP"); return p ? p : "."; }
inline std::string unique_name(const char* prefix) {
  static unsigned long ctr = 0;
  char b[96]; std::snprintf(b, sizeof b, "%s_%ld_%lu", prefix, (long)getpid(), ++ctr);
  return b;
}

// corruptions for C20.e (0 = none)
enum Corrupt { OK = 0, MAGIC_P6, MAGIC_P2, MAGIC_LOWER, MAGIC_TRAILING, NO_OFFSET, NO_SCALE, SCALE_ZERO, SCALE_NEG, ODD_WIDTH, EVEN_HEIGHT,
               MAXVAL_255, MAXVAL_65534, MAXVAL_65536, SHORT_1, SHORT_2, LONG_1, LONG_ROW, NO_DATA, NO_MAXVAL, SIZE_TEXT, OFFSET_TEXT, SCALE_TEXT,
               WIDTH_0, HEIGHT_1, EMPTY_FILE, NCORRUPT };
inline const char* corrupt_name(int c) {
  static const char* n[] = {"valid", "magic-P6", "magic-P2", "magic-lowercase", "magic-trailing-space", "missing-Offset", "missing-Scale", "scale-zero", "negative-scale",
                            "odd-width", "even-height", "maxval-255", "maxval-65534", "maxval-65536", "one-byte-short", "two-bytes-short", "one-byte-long", "one-row-long",
                            "no-pixel-data", "missing-maxval", "size-not-numeric", "offset-not-numeric", "scale-not-numeric", "width-0", "height-1", "empty-file"};
  return c >= 0 && c < NCORRUPT ? n[c] : "?";
}

struct Header { std::string description, datetime; double maxerr_bil = -1, rmserr_bil = -1, maxerr_cub = -1, rmserr_cub = -1; };

// hdr: bit 0 leading comment, 1 Description, 2 DateTime, 3 error lines, 4 Scale before Offset, 5 extra blanks in the
// comment lines, 6 blank lines, 7 unrelated comment lines (Origin, AREA_OR_POINT, URL), 8 "#" lines without a key
inline std::string pgm_bytes(const ref::geoid::Raster& r, int hdr, int corrupt, Header* H = nullptr) {
  std::string s;
  Header h;
  const char* magic = corrupt == MAGIC_P6 ? "P6" : corrupt == MAGIC_P2 ? "P2" : corrupt == MAGIC_LOWER ? "p5" : corrupt == MAGIC_TRAILING ? "P5 " : "P5";
  s += magic; s += "\n";
  const char* sp = (hdr & 32) ? "   " : " ";
  if (hdr & 1) s += "# Geoid file in PGM format for the GeographicLib::Geoid class\n";
  if (hdr & 2) { h.description = "synthetic raster, test grid"; s += std::string("#") + sp + "Description" + sp + h.description + "\n"; }
  if (hdr & 128) s += "# URL https://example.invalid/geoid\n";
  if (hdr & 4) { h.datetime = "2026-10-01 12:00:00"; s += std::string("#") + sp + "DateTime" + sp + h.datetime + "\n"; }
  if (hdr & 8) {
    h.maxerr_bil = 0.14; h.rmserr_bil = 0.005; h.maxerr_cub = 0.003; h.rmserr_cub = 0.001;
    s += "# MaxBilinearError 0.14\n# RMSBilinearError 0.005\n# MaxCubicError 0.003\n# RMSCubicError 0.001\n";
  }
  if (hdr & 64) s += "\n";
  std::string off = std::string("#") + sp + "Offset" + sp + (corrupt == OFFSET_TEXT ? std::string("abc") : num17(r.offset)) + "\n";
  double sc = corrupt == SCALE_ZERO ? 0.0 : corrupt == SCALE_NEG ? -r.scale : r.scale;
  std::string scl = std::string("#") + sp + "Scale" + sp + (corrupt == SCALE_TEXT ? std::string("xyz") : num17(sc)) + "\n";
  if (corrupt == NO_OFFSET) off.clear();
  if (corrupt == NO_SCALE) scl.clear();
  if (hdr & 16) s += scl + off; else s += off + scl;
  if (hdr & 256) s += "#\n# \n";
  if (hdr & 128) s += "# Origin 90N 0E\n# AREA_OR_POINT Point\n# Vertical_Datum WGS84\n";
  int w = r.w, hh = r.h;
  if (corrupt == ODD_WIDTH) w = r.w + 1;
  if (corrupt == EVEN_HEIGHT) hh = r.h + 1;
  if (corrupt == WIDTH_0) w = 0;
  if (corrupt == HEIGHT_1) hh = 1;
  if (corrupt == SIZE_TEXT) s += "wide high\n"; else s += std::to_string(w) + (hdr & 32 ? "   " : " ") + std::to_string(hh) + "\n";
  if (corrupt != NO_MAXVAL) s += corrupt == MAXVAL_255 ? "255\n" : corrupt == MAXVAL_65534 ? "65534\n" : corrupt == MAXVAL_65536 ? "65536\n" : "65535\n";
  if (corrupt == NO_DATA) { if (H) *H = h; return s; }
  // pixel data for the declared size (so that only the named field is wrong), big-endian
  size_t n = (size_t)w * (size_t)hh;
  std::string d; d.reserve(2 * n);
  for (size_t i = 0; i < n; ++i) { uint16_t v = r.px[i % r.px.size()]; d += (char)(v >> 8); d += (char)(v & 0xff); }
  if (corrupt == SHORT_1 && !d.empty()) d.resize(d.size() - 1);
  if (corrupt == SHORT_2 && d.size() >= 2) d.resize(d.size() - 2);
  if (corrupt == LONG_1) d += '\0';
  if (corrupt == LONG_ROW) d.append((size_t)2 * (size_t)w, '\0');
  s += d;
  if (corrupt == EMPTY_FILE) s.clear();
  if (H) *H = h;
  return s;
}

}  // namespace c20
