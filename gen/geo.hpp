// Shared generators (DESIGN 1.5).  Construction, not rejection; every draw goes through
// rapidcheck (vf::g::*), so cases shrink and replay.  Call only inside rc::gen::exec.
#pragma once
#include <cmath>
#include <string>
#include <vector>
#include "fw/harness.hpp"

namespace gg {
using namespace vf;

static const double A_WGS84 = 6378137.0;
static const double F_WGS84 = 1 / 298.257223563;

struct Ell { double a, f; std::string tag; };

enum EllKind { SERIES_FULL, SERIES_WIDE, EXACT_RANGE, ANY_LT1 };

// named ellipsoids
inline Ell named_ellipsoid() {
  switch (g::irange(0, 5)) {
    case 0: return {A_WGS84, F_WGS84, "wgs84"};
    case 1: return {6378137.0, 1 / 298.257222101, "grs80"};
    case 2: return {6378206.4, 1 / 294.9786982, "clarke1866"};
    case 3: return {6377397.155, 1 / 299.1528128, "bessel"};
    case 4: return {6371000.0, 0.0, "sphere"};
    default: return {6378388.0, 1 / 297.0, "intl1924"};
  }
}

inline Ell ellipsoid(EllKind kind) {
  double fmax = kind == SERIES_FULL ? 0.02 : kind == SERIES_WIDE ? 0.2 : 0.99;
  int c = g::wpick({30, 30, 15, 10, 15});
  Ell e;
  if (c == 0) return named_ellipsoid();
  e.a = g::coin(3, 4) ? A_WGS84 : g::loguni(1.0, 1e9);
  if (c == 1) {          // log-uniform |f|, both signs
    e.f = g::sgn() * g::loguni(1e-12, fmax); e.tag = "f-loguni";
  } else if (c == 2) {   // at the documented limits
    std::vector<double> lim = {0.01, 0.02, 1 / 150.0};
    if (kind != SERIES_FULL) {
      lim.push_back(0.05); lim.push_back(0.1); lim.push_back(0.2);
      // third flattening |n| = 0.1 (f = 2/11, -2/9): InverseStart switches its starting guess there
      lim.push_back(2 / 11.0 * (1 + g::sgn() * g::loguni(1e-9, 1e-2))); lim.push_back(2 / 9.0 * (1 + g::sgn() * g::loguni(1e-9, 1e-2)));
    }
    double v = g::oneofv(lim); if (v > fmax) v = fmax;
    e.f = g::sgn() * v; e.tag = "f-limit";
  } else if (c == 3) {   // uniform in f
    e.f = g::uni(-fmax, fmax); e.tag = "f-uni";
  } else {               // kind specific
    if (kind == EXACT_RANGE || kind == ANY_LT1) {
      double ba = g::loguni(0.01, 100.0);   // b/a
      e.f = 1 - ba; e.tag = "ba-loguni";
    } else {
      e.f = g::sgn() * g::loguni(1e-4, fmax); e.tag = "f-loguni-large";
    }
  }
  if (kind == SERIES_FULL || kind == SERIES_WIDE) { if (e.f > fmax) e.f = fmax; if (e.f < -fmax) e.f = -fmax; }
  return e;
}

// a tiny latitude: log-uniform down to 1e-300, or a few quanta of Math::AngRound (2^-57 deg = 6.9e-18 deg is the
// smallest non-zero latitude the solvers distinguish from the equator)
inline double tiny_lat() {
  if (g::coin(1, 3)) return g::sgn() * std::ldexp((double)g::irange(1, 300), -57);
  return g::sgn() * g::loguni(1e-300, 1e-5);
}
// a latitude in [-90, 90]: poles, equator and near-cardinal values over-weighted
inline double latitude() {
  switch (g::wpick({40, 15, 8, 8, 10, 9, 10})) {
    case 0: return g::uni(-90, 90);
    case 1: return std::asin(g::uni(-1, 1)) * 180 / M_PI;               // area-uniform
    case 2: return g::oneof<double>({90, -90});
    case 3: return g::oneof<double>({0.0, -0.0});
    case 4: {                                                              // near pole / equator, log scale
      double d = g::loguni(1e-14, 1.0);
      return g::coin() ? g::sgn() * (90 - d) : g::sgn() * d;
    }
    case 5: {                                                              // cardinal +- ulps
      double c = g::oneof<double>({0, 30, 45, 60, 80, 84, 89, 90});
      double v = g::ulps(c, (int)g::irange(-3, 3)); if (v > 90) v = 90;
      return g::sgn() * v;
    }
    default: return tiny_lat();                                            // tiny
  }
}

// any real angle (longitude, azimuth): unnormalised values, cardinal +- ulps, tiny, -0
inline double angle() {
  switch (g::wpick({40, 15, 15, 10, 10, 10})) {
    case 0: return g::uni(-180, 180);
    case 1: {
      double c = g::oneof<double>({0, 30, 45, 90, 135, 180, 270, 360, 540, 720});
      return g::sgn() * g::ulps(c, (int)g::irange(-3, 3));
    }
    case 2: return g::uni(-180, 180) + 360.0 * (double)g::irange(-20, 20);
    case 3: return g::sgn() * g::loguni(1e-300, 1e-5);
    case 4: return g::oneof<double>({0.0, -0.0, 180.0, -180.0, 90.0, -90.0});
    default: {                                                              // near cardinal on a log scale
      double c = g::oneof<double>({0, 90, 180});
      return g::sgn() * (c + g::sgn() * g::loguni(1e-14, 1.0));
    }
  }
}

// a normalised longitude-like angle in [-180,180]
inline double angle180() {
  double x = std::remainder(angle(), 360.0);
  return x;
}

// signed geodesic length in metres for equatorial radius a (up to maxcirc circuits)
inline double distance(double a, double maxcirc = 20) {
  double circ = 2 * M_PI * a;
  switch (g::wpick({35, 25, 15, 15, 10})) {
    case 0: return g::sgn() * g::uni(0, circ / 2);
    case 1: return g::sgn() * g::loguni(1e-9, 1e9) * a / A_WGS84 * (maxcirc >= 20 ? 1 : maxcirc / 20);
    case 2: return g::sgn() * g::uni(0, maxcirc * circ);
    case 3: {                                                               // multiples of the quarter circumference +- small
      double q = circ / 4 * (double)g::irange(1, 8);
      return g::sgn() * (q + g::sgn() * g::loguni(1e-6, 1e3));
    }
    default: return g::coin() ? 0.0 : g::sgn() * g::loguni(1e-300, 1e-9);
  }
}

}  // namespace gg
