// Input regions of the known findings of C10 (findings/C10-*.md), decided from the input text alone, so that the
// fuzz targets can skip (and count) them when the finding is listed in known_findings.json.
#pragma once
#include <string>
namespace c10known {
// C10-mgrs-zone-overflow: MGRS::Reverse accumulates the leading zone digits in an int before checking their number;
// a single-token line (GeoCoords: 1 token = MGRS) starting with >= 10 digits overflows.
inline bool mgrs_zone_overflow(const std::string& line) {
  auto sp = [](char c) { return c == ' ' || c == ',' || (c >= 9 && c <= 13); };
  size_t i = 0, n = line.size(), ntok = 0, first = 0;
  while (i < n) {
    while (i < n && sp(line[i])) ++i;
    if (i >= n) break;
    if (ntok == 0) first = i;
    ++ntok;
    while (i < n && !sp(line[i])) ++i;
  }
  if (ntok != 1) return false;
  size_t d = 0; while (first + d < n && line[first + d] >= '0' && line[first + d] <= '9') ++d;
  return d >= 10;
}
inline bool mgrs_zone_overflow_text(const std::string& text) {
  size_t p = 0;
  while (p <= text.size()) { size_t q = text.find('\n', p); if (q == std::string::npos) q = text.size(); if (mgrs_zone_overflow(text.substr(p, q - p))) return true; p = q + 1; }
  return false;
}
// C10-date-int-overflow: Utility::fractionalyear / day evaluate 100*(100*y+m)+d and 1461*y in int; a field of the
// date string with more than 5 digits can overflow.
inline bool date_field_overflow(const std::string& s) {
  size_t run = 0;
  for (char c : s) { if (c >= '0' && c <= '9') { if (++run > 5) return true; } else run = 0; }
  return false;
}
}  // namespace c10known
