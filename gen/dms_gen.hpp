// Grammar generator of valid DMS strings (C10.c/e/g).  A *spec* (JSON value, so it shrinks and
// replays) lists the pieces of a sum, their hemisphere letter, sign, components, the spelling chosen
// for every symbol and where ignorable-space symbols / white space are inserted.  render() turns a
// spec into the byte string *and* computes the value the documentation of DMS::Decode assigns to it
// (long double; sign * (d + m/60 + s/3600) summed over the pieces) directly from the spec -- no
// parsing is involved, so the expected value is correct by construction.  render() also validates the
// spec (a shrunk / hand-edited spec that is not a documented form gives ok = false -> SKIP).
#pragma once
#include <cmath>
#include <string>
#include <vector>
#include "fw/harness.hpp"
#include "ref/dms_ref.hpp"

namespace dmsgen {
using vf::J;
typedef long double L;

struct Rendered {
  bool ok = false; std::string why;
  std::string s; L value = 0; L sumabs = 0; int flag = 0; bool special = false; int npieces = 0;
  std::vector<std::string> tags;
};

inline const std::vector<std::string>& sp(char k) {
  static std::vector<std::string> d = dmsref::spellings('d'), m = dmsref::spellings('m'), s = dmsref::spellings('s'),
                                  pl = dmsref::spellings('+'), mi = dmsref::spellings('-'), ig = dmsref::spellings('i');
  switch (k) { case 'd': return d; case 'm': return m; case 's': return s; case '+': return pl; case '-': return mi; default: return ig; }
}

inline bool valid_num(const std::string& n, bool allowdot) {
  if (n.empty() || n.size() > 48) return false;
  size_t dots = 0, digs = 0;
  for (char c : n) { if (c == '.') ++dots; else if (c >= '0' && c <= '9') ++digs; else return false; }
  return digs > 0 && dots <= (allowdot ? 1u : 0u);
}

inline Rendered render(const J& spec) {
  Rendered R;
  auto bad = [&](const char* w) { R.ok = false; R.why = w; return R; };
  if (spec.t != J::OBJ || !spec.has("pieces")) return bad("no pieces");
  const J& ps = spec.at("pieces");
  if (ps.t != J::ARR || ps.a.empty() || ps.a.size() > 6) return bad("piece count");
  std::string body; L sum = 0, sumabs = 0; int flag = 0;
  auto tag = [&](const std::string& t) { R.tags.push_back(t); };
  for (size_t q = 0; q < ps.a.size(); ++q) {
    const J& p = ps.a[q];
    if (p.t != J::OBJ) return bad("piece type");
    std::string h = p.has("h") ? p.gets("h") : "";
    long long hpos = p.has("hpos") ? p.geti("hpos") : 1;
    long long sg = p.has("sg") ? p.geti("sg") : 0, sgv = p.has("sgv") ? p.geti("sgv") : 0;
    bool colon = p.has("colon") && p.geti("colon");
    std::string special = p.has("special") ? p.gets("special") : "";
    if (!(h.empty() || h == "N" || h == "S" || h == "E" || h == "W")) return bad("hemisphere letter");
    if (!h.empty() && hpos == 0 && q > 0) return bad("prefix hemisphere on a later piece");
    if (sg < 0 || sg > 2 || (q > 0 && sg == 0)) return bad("sign");
    std::vector<std::string> tok;   // tokens of this piece (ignorable symbols go between tokens)
    if (!h.empty() && hpos == 0) { tok.push_back(h); tag("hemi-prefix"); }
    if (sg) {
      const std::vector<std::string>& v = sp(sg == 1 ? '+' : '-');
      if (sgv < 0 || sgv >= (long long)v.size()) return bad("sign variant");
      tok.push_back(v[(size_t)sgv]);
      tag(std::string(sg == 1 ? "plus" : "minus") + std::to_string(sgv));
      if (q == 0 && !h.empty() && hpos == 0) tag("sign-after-hemi-prefix");
    }
    int hs = (h == "S" || h == "W") ? -1 : 1, ss = sg == 2 ? -1 : 1;
    L val = 0;
    if (!special.empty()) {
      std::string lo = dmsref::lower(special);
      if (!(lo == "nan" || lo == "inf" || lo == "infinity")) return bad("special spelling");
      if (!h.empty()) return bad("special with hemisphere");
      tok.push_back(special);
      val = lo == "nan" ? std::nanl("") : (ss < 0 ? -INFINITY : INFINITY);
      R.special = true; tag("special-" + lo);
    } else {
      if (!p.has("comps")) return bad("no comps");
      const J& cs = p.at("comps");
      if (cs.t != J::ARR || cs.a.empty() || cs.a.size() > 3) return bad("comp count");
      int prev = -1; L x[3] = {0, 0, 0};
      for (size_t i = 0; i < cs.a.size(); ++i) {
        const J& c = cs.a[i];
        if (c.t != J::OBJ) return bad("comp type");
        long long u = c.geti("u"), iv = c.has("iv") ? c.geti("iv") : -1;
        const std::string& num = c.gets("num");
        bool last = i + 1 == cs.a.size();
        if (u < 0 || u > 2 || u <= prev) return bad("unit order");
        if (!valid_num(num, last)) return bad("number");
        L xv = std::strtold(num.c_str(), nullptr);
        bool dot = num.find('.') != std::string::npos;
        if (u > 0 && (dot ? xv > 60 : xv >= 60)) return bad("minutes/seconds range");
        if (u > 0 && xv == 60) tag("sixty-point");
        if (dot) tag(num[0] == '.' ? "num-.5" : num.back() == '.' ? "num-5." : "num-decimal");
        if (num.size() > 1 && num[0] == '0' && num[1] != '.') tag("leading-zero");
        x[u] = xv;
        tok.push_back(num);
        if (colon) {
          if (u != (long long)i) return bad("colon units");
          if (!last) tok.push_back(":");
        } else {
          if (iv < 0) {
            if (!last || u != prev + 1) return bad("omitted indicator");
            tag("indicator-omitted-u" + std::to_string(u));
          } else {
            char k = u == 0 ? 'd' : u == 1 ? 'm' : 's';
            const std::vector<std::string>& v = sp(k);
            if (iv < (long long)v.size()) { tok.push_back(v[(size_t)iv]); tag(std::string(1, k) + std::to_string(iv)); }
            else if (u == 2 && iv >= 100) {
              const std::vector<std::string>& mv = sp('m');
              long long a = (iv - 100) / (long long)mv.size(), b = (iv - 100) % (long long)mv.size();
              if (a >= (long long)mv.size()) return bad("pair variant");
              tok.push_back(mv[(size_t)a] + mv[(size_t)b]); tag("s-pair"); tag("s-pair-m" + std::to_string(a)); tag("s-pair-m" + std::to_string(b));
            } else return bad("indicator variant");
          }
        }
        prev = (int)u;
      }
      if (colon) { if (cs.a.size() < 2) return bad("colon form needs two components"); tag("colon" + std::to_string(cs.a.size())); }
      else {
        std::string pat = "units";
        for (auto& c : cs.a) pat += std::to_string(c.geti("u"));
        tag(pat);
      }
      val = L(ss * hs) * (x[0] + x[1] / 60 + x[2] / 3600);
    }
    if (!h.empty() && hpos != 0) { tok.push_back(h); tag("hemi-suffix"); }
    if (!h.empty()) {
      int f = (h == "N" || h == "S") ? 1 : 2;
      if (flag && flag != f) return bad("incompatible hemispheres");
      flag = f;
    }
    // ignorable space symbols between tokens: list of [position, variant]
    std::vector<std::string> pre(tok.size() + 1);
    if (p.has("ign")) {
      const J& ig = p.at("ign");
      if (ig.t != J::ARR || ig.a.size() > 4) return bad("ign list");
      for (const J& e : ig.a) {
        if (e.t != J::ARR || e.a.size() != 2) return bad("ign entry");
        long long at = (long long)e.a[0].asd(), v = (long long)e.a[1].asd();
        if (at < 0 || at > (long long)tok.size() || v < 0 || v >= (long long)sp('i').size()) return bad("ign entry range");
        pre[(size_t)at] += sp('i')[(size_t)v]; tag("ign" + std::to_string(v));
      }
    }
    for (size_t i = 0; i < tok.size(); ++i) { body += pre[i]; body += tok[i]; }
    body += pre[tok.size()];
    sum += val; if (std::isfinite((double)val)) sumabs += fabsl(val);
  }
  auto wsok = [](const std::string& w) { if (w.size() > 6) return false; for (char c : w) if (!(c == ' ' || (c >= 9 && c <= 13))) return false; return true; };
  std::string lws = spec.has("lws") ? spec.gets("lws") : "", tws = spec.has("tws") ? spec.gets("tws") : "";
  if (!wsok(lws) || !wsok(tws)) return bad("white space");
  if (!lws.empty() || !tws.empty()) tag("ws");
  if (ps.a.size() > 1) tag("sum" + std::to_string(ps.a.size()));
  if (flag) tag(flag == 1 ? "flag-lat" : "flag-lon"); else tag("flag-none");
  R.s = lws + body + tws; R.value = sum; R.sumabs = sumabs; R.flag = flag; R.npieces = (int)ps.a.size(); R.ok = true;
  return R;
}

// ------------------------------------------------------------------ generation (inside rc::gen::exec)
struct Opt {
  int flag = -1;            // -1 any, 0 none, 1 latitude letters, 2 longitude letters
  bool special = true;      // allow nan/inf pieces
  bool sums = true;
  bool inrange = false;     // keep |value| of a latitude-like string <= 90 (single piece, degrees <= 89)
  bool plain = false;       // ASCII spellings only, no white space / ignorable symbols (tool input tokens)
  int maxdeg = 0;           // > 0: degrees drawn from [0, maxdeg]
  bool nows = false;        // no leading / trailing white space (white-space separated tool tokens)
};

inline std::string digits(int n, int mode) {   // mode 0 random, 1 nines, 2 zeros
  std::string s;
  for (int i = 0; i < n; ++i) s += mode == 1 ? '9' : mode == 2 ? '0' : char('0' + vf::g::irange(0, 9));
  return s;
}

inline std::string number(int u, bool last, const Opt& o, bool firstpiece) {
  using namespace vf::g;
  long long ip;
  if (u == 0) {
    if (o.inrange) ip = irange(0, 89);
    else if (o.maxdeg > 0) ip = irange(0, o.maxdeg);
    else switch (wpick({45, 20, 15, 12, 8})) {
      case 0: ip = irange(0, 89); break;
      case 1: ip = irange(0, 180); break;
      case 2: ip = irange(0, 720); break;
      case 3: ip = (long long)loguni(1, 1e9); break;
      default: ip = (long long)loguni(1e9, 9e17); break;
    }
    if (!firstpiece && coin(1, 2)) ip = irange(0, 3);
  } else ip = coin(1, 4) ? 59 : irange(0, 59);
  std::string s = std::to_string(ip);
  if (coin(1, 4)) s = std::string((size_t)irange(1, 2), '0') + s;
  if (last && coin(1, 2)) {
    int c = wpick({62, 6, 10, 10, 6, 6});
    if (c == 0) s += "." + digits((int)irange(1, 17), 0);
    else if (c == 1) s += ".";
    else if (c == 2) s += "." + digits((int)irange(1, 18), 1);                 // 59.999.. rounds up to the next unit
    else if (c == 3) s += "." + digits((int)irange(1, 12), 2);
    else if (c == 4) { if (ip == 0) s = "." + digits((int)irange(1, 12), 0); else s += "." + digits(3, 0); }
    else { if (u > 0) s = oneof<std::string>({"60.0", "60.", "60.000", "060.0"}); else s += ".5"; }
  }
  return s;
}

inline J gen_piece(size_t q, int flagkind, const Opt& o) {
  using namespace vf::g;
  J p = J::obj();
  bool special = o.special && coin(1, 25);
  std::string h;
  long long hpos = 1;
  if (flagkind && !special && (q == 0 ? coin(3, 4) : coin(1, 2))) {
    h = flagkind == 1 ? (coin() ? "N" : "S") : (coin() ? "E" : "W");
    hpos = q == 0 && coin() ? 0 : 1;
  }
  p["h"] = J::str(h); p["hpos"] = J::integer(hpos);
  long long sg = q == 0 ? wpick({60, 12, 28}) : 1 + irange(0, 1);
  p["sg"] = J::integer(sg);
  long long sgv = 0;
  if (sg && !o.plain && coin(1, 3)) sgv = irange(0, (long long)sp(sg == 1 ? '+' : '-').size() - 1);
  p["sgv"] = J::integer(sgv);
  if (special) {
    p["special"] = J::str(oneof<std::string>({"nan", "NaN", "NAN", "inf", "Inf", "INF", "infinity", "Infinity", "INFINITY"}));
    return p;
  }
  bool colon = coin(1, 3);
  std::vector<std::vector<int>> pats;
  if (colon) pats = {{0, 1}, {0, 1, 2}};
  else pats = {{0}, {0}, {0}, {0, 1}, {0, 1}, {0, 1, 2}, {0, 1, 2}, {0, 2}, {1}, {2}, {1, 2}};
  std::vector<int> us = oneofv(pats);
  p["colon"] = J::integer(colon);
  J cs = J::arr();
  int prev = -1;
  for (size_t i = 0; i < us.size(); ++i) {
    bool last = i + 1 == us.size();
    J c = J::obj();
    c["u"] = J::integer(us[i]);
    c["num"] = J::str(number(us[i], last, o, q == 0));
    long long iv = 0;
    if (!colon) {
      char k = us[i] == 0 ? 'd' : us[i] == 1 ? 'm' : 's';
      long long nv = (long long)sp(k).size(), nm = (long long)sp('m').size();
      if (last && us[i] == prev + 1 && coin(us.size() == 1 ? 7 : 5, 10)) iv = -1;
      else if (o.plain) iv = (k == 'd' && coin(1, 3)) ? 1 : 0;
      else if (coin(2, 5)) iv = 0;
      else if (k == 's' && coin(1, 3)) iv = 100 + irange(0, nm * nm - 1);
      else iv = irange(0, nv - 1);
    }
    c["iv"] = J::integer(iv);
    cs.push(c);
    prev = us[i];
  }
  p["comps"] = cs;
  if (!o.plain && coin(1, 8)) {
    size_t ntok = 0;   // an upper bound is enough: positions are clamped in render via validation, so compute exactly
    ntok = (h.empty() ? 0 : 1) + (sg ? 1 : 0);
    for (size_t i = 0; i < us.size(); ++i) {
      ntok += 1;
      bool last = i + 1 == us.size();
      if (colon) { if (!last) ntok += 1; } else if (cs.a[i].geti("iv") >= 0) ntok += 1;
    }
    J ig = J::arr();
    long long n = irange(1, 2);
    for (long long k = 0; k < n; ++k) { J e = J::arr(); e.push(J::integer(irange(0, (long long)ntok))); e.push(J::integer(irange(0, (long long)sp('i').size() - 1))); ig.push(e); }
    p["ign"] = ig;
  }
  return p;
}

inline std::string gen_ws() {
  using namespace vf::g;
  std::string w; long long n = irange(1, 3);
  for (long long i = 0; i < n; ++i) w += oneof<char>({' ', ' ', '\t', '\n', '\v', '\f', '\r'});
  return w;
}

inline J gen_spec(const Opt& o = Opt()) {
  using namespace vf::g;
  J s = J::obj();
  int flagkind = o.flag >= 0 ? o.flag : wpick({50, 25, 25});
  long long np = (o.sums && !o.inrange) ? 1 + wpick({65, 20, 10, 5}) : 1;
  J ps = J::arr();
  for (long long q = 0; q < np; ++q) ps.push(gen_piece((size_t)q, flagkind, o));
  s["pieces"] = ps;
  s["lws"] = J::str(!o.plain && !o.nows && coin(1, 5) ? gen_ws() : "");
  s["tws"] = J::str(!o.plain && !o.nows && coin(1, 5) ? gen_ws() : "");
  return s;
}

}  // namespace dmsgen
