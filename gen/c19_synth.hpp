// gen/c19_synth.hpp - helpers of the C19 sub-checks: deterministic expansion of coefficient sets from a seed,
// writers for synthetic model files in the documented formats, long-double geodetic helpers.
#pragma once
#include <cmath>
#include <cstdint>
#include <cstdio>
#include <cstdlib>
#include <string>
#include <vector>
#include <unistd.h>

#include "fw/harness.hpp"
#include "ref/sh_ref.hpp"

namespace c19 {

typedef long double L;
static const double EPS = 2.220446049250313e-16;
static const L PI_L = 3.141592653589793238462643383279502884L;

// splitmix64: pure function of the seed stored in the case record (no RNG state outside the record)
struct Rng {
  uint64_t s;
  explicit Rng(uint64_t seed) : s(seed * 0x9e3779b97f4a7c15ULL + 0x632be59bd9b4e019ULL) {}
  uint64_t next() { s += 0x9e3779b97f4a7c15ULL; uint64_t z = s; z = (z ^ (z >> 30)) * 0xbf58476d1ce4e5b9ULL; z = (z ^ (z >> 27)) * 0x94d049bb133111ebULL; return z ^ (z >> 31); }
  double u01() { return (double)(next() >> 11) / 9007199254740992.0; }
  double sym() { return 2 * u01() - 1; }
  int below(int n) { return (int)(next() % (uint64_t)n); }
};

inline int csize(int N, int M) { return (M + 1) * (2 * N - M + 2) / 2; }

// triangular coefficient arrays in the documented column-major layout, columns 0..M only
struct CS {
  int N = -1, M = -1;
  std::vector<double> C, S;
  void init(int n, int m) { N = n; M = m; C.assign((size_t)std::max(0, csize(n, m)), 0.0); S.assign((size_t)std::max(0, csize(n, m) - (n + 1)), 0.0); }
  size_t ci(int n, int m) const { return (size_t)(m * N - m * (m - 1) / 2 + n); }
  double& c(int n, int m) { return C[ci(n, m)]; }
  double& s(int n, int m) { return S[ci(n, m) - (size_t)(N + 1)]; }
  double cget(int n, int m) const { return (n > N || m > M || m > n) ? 0.0 : C[ci(n, m)]; }
  double sget(int n, int m) const { return (n > N || m > M || m > n || m == 0) ? 0.0 : S[ci(n, m) - (size_t)(N + 1)]; }
};

// kind 0: uniform in [-amp, amp]; 1: power-law decay amp (n+1)^-decay; 2: sparse (8 % non-zero);
// 3: single term delta_{n0 m0} (cs = 0 cosine, 1 sine)
inline CS make_coeffs(int N, int M, int kind, double decay, uint64_t seed, double amp, int n0, int m0, int cs) {
  CS o; o.init(N, M);
  if (N < 0) return o;
  Rng g(seed);
  if (kind == 3) {
    n0 = std::min(std::max(n0, 0), N); m0 = std::min(std::max(m0, 0), std::min(n0, M));
    if (cs && m0 > 0) o.s(n0, m0) = amp; else o.c(n0, m0) = amp;
    return o;
  }
  for (int m = 0; m <= M; ++m)
    for (int n = m; n <= N; ++n) {
      double f = kind == 1 ? std::pow((double)(n + 1), -decay) : 1.0;
      double a = g.sym() * amp * f, b = g.sym() * amp * f;
      if (kind == 2) { if (g.u01() > 0.08) a = 0; if (g.u01() > 0.08) b = 0; }
      o.c(n, m) = a;
      if (m > 0) o.s(n, m) = b;
    }
  return o;
}

inline std::string tmpdir() { const char* p = std::getenv("VF_TMP"); return p ? p : "."; }
inline std::string unique_name(const char* prefix) {
  static unsigned long ctr = 0;
  char b[96]; std::snprintf(b, sizeof b, "%s_%ld_%lu", prefix, (long)getpid(), ++ctr);
  return b;
}

inline void put_i32(std::string& s, int v) { uint32_t u = (uint32_t)v; for (int i = 0; i < 4; ++i) s += (char)((u >> (8 * i)) & 0xff); }
inline void put_f64(std::string& s, double v) { uint64_t u; std::memcpy(&u, &v, 8); for (int i = 0; i < 8; ++i) s += (char)((u >> (8 * i)) & 0xff); }
// one coefficient set in the documented binary format: N, M (int32 LE), C (column major), S (from m = 1)
inline void put_set(std::string& s, const CS& c) {
  put_i32(s, c.N); put_i32(s, c.M);
  for (double v : c.C) put_f64(s, v);
  for (double v : c.S) put_f64(s, v);
}
inline std::string num17(double v) { char b[64]; std::snprintf(b, sizeof b, "%.17g", v); return b; }

// metadata text: KEY WHITESPACE VALUE lines with documented freedom (comments, blank lines, tabs, unknown keys)
struct Meta {
  std::string txt; Rng g; int style;
  Meta(const std::string& magic, uint64_t seed, int style_) : g(seed), style(style_) {
    txt = magic + "\n";
    if (style & 1) txt += "# synthetic model written by the verification harness\n\n";
  }
  void kv(const std::string& k, const std::string& v) {
    const char* sep = (style & 2) ? "\t" : ((style & 4) ? "        " : " ");
    if ((style & 8) && g.below(3) == 0) txt += "  \n";
    txt += ((style & 16) && g.below(2) ? "  " : "") + k + sep + v + ((style & 32) && g.below(2) ? "   # trailing comment" : "") + "\n";
    if ((style & 64) && g.below(4) == 0) txt += "UnknownKeyword" + std::to_string(g.below(100)) + " some value 12\n";
  }
};

// sin, cos of an angle in degrees, exact at multiples of 90
inline void sincosd(L x, L& s, L& c) {
  L r = remainderl(x, 360.0L);
  int q = (int)lrintl(r / 90);
  r -= 90.0L * q; r *= PI_L / 180;
  L sr = sinl(r), cr = cosl(r);
  switch (((q % 4) + 4) % 4) {
    case 0: s = sr; c = cr; break;
    case 1: s = cr; c = -sr; break;
    case 2: s = -sr; c = -cr; break;
    default: s = -cr; c = sr; break;
  }
}

struct Frame { L X[3]; L e[3], n[3], u[3]; L sphi, cphi, slam, clam; };
// geodetic -> geocentric and the local east, north, up unit vectors (textbook formulas)
inline Frame geodetic_frame(double a, double f, double lat, double lon, double h) {
  Frame F;
  sincosd(lat, F.sphi, F.cphi); sincosd(lon, F.slam, F.clam);
  L e2 = (L)f * (2 - (L)f);
  L nu = (L)a / sqrtl(1 - e2 * F.sphi * F.sphi);
  L P = (nu + h) * F.cphi;
  F.X[0] = P * F.clam; F.X[1] = P * F.slam; F.X[2] = (nu * (1 - e2) + h) * F.sphi;
  F.e[0] = -F.slam; F.e[1] = F.clam; F.e[2] = 0;
  F.n[0] = -F.sphi * F.clam; F.n[1] = -F.sphi * F.slam; F.n[2] = F.cphi;
  F.u[0] = F.cphi * F.clam; F.u[1] = F.cphi * F.slam; F.u[2] = F.sphi;
  return F;
}
inline L dot3(const L* a, const L* b) { return a[0] * b[0] + a[1] * b[1] + a[2] * b[2]; }
inline L norm3(L x, L y, L z) { return sqrtl(x * x + y * y + z * z); }

inline ref::sh::Comp comp_of(const CS& c, int nmx, int mmx, L tau) {
  ref::sh::Comp k; k.C = &c.C; k.S = &c.S; k.N = c.N; k.nmx = nmx; k.mmx = mmx; k.tau = tau; return k;
}

}  // namespace c19
